"""Loads the library under test straight from the repository working tree.

The loader only *imports* modules (the zygote never calls into the library);
every call into py-emmet happens in a forked child: either a reference child
(one call in pristine state) or a run child (one simulated history).
"""
import importlib
import os
import pkgutil
import sys

REPO = os.path.realpath(os.environ.get('VERIF_REPO', '/repo'))

_loaded = None


class LibraryLoadError(Exception):
    pass


def load():
    "Imports every emmet.* module from REPO; returns the list of module objects"
    global _loaded
    if _loaded is not None:
        return _loaded

    sys.dont_write_bytecode = True
    if sys.path[0] != REPO:
        sys.path.insert(0, REPO)

    try:
        import emmet
    except Exception as err:  # noqa
        raise LibraryLoadError('cannot import emmet from %s: %r' % (REPO, err))

    origin = os.path.realpath(os.path.dirname(emmet.__file__))
    if origin != os.path.join(REPO, 'emmet'):
        raise LibraryLoadError('emmet imported from %s, expected %s/emmet' % (origin, REPO))

    mods = [emmet]
    for info in pkgutil.walk_packages(emmet.__path__, 'emmet.'):
        try:
            mods.append(importlib.import_module(info.name))
        except Exception as err:  # noqa
            raise LibraryLoadError('cannot import %s: %r' % (info.name, err))

    _loaded = mods
    return mods


def modules():
    "All currently imported emmet.* modules (includes ones imported lazily later)"
    return [m for name, m in sorted(sys.modules.items())
            if m is not None and (name == 'emmet' or name.startswith('emmet.'))]


def lib_prefix():
    return os.path.join(REPO, 'emmet') + os.sep


def tree_id():
    "Short content hash of the library sources (recorded in evidence files)"
    import hashlib
    h = hashlib.sha256()
    root = os.path.join(REPO, 'emmet')
    for dirpath, dirnames, filenames in sorted(os.walk(root)):
        dirnames.sort()
        if '__pycache__' in dirpath:
            continue
        for fn in sorted(filenames):
            if fn.endswith('.py'):
                p = os.path.join(dirpath, fn)
                h.update(os.path.relpath(p, root).encode())
                with open(p, 'rb') as fh:
                    h.update(fh.read())
    return h.hexdigest()[:16]


_cleanup = None


def cleanup_lines():
    """relpath -> set of line numbers lexically inside `finally:` bodies and `except`
    handlers of the library. Fault F5 is never delivered while a library frame is
    executing such a line: "a function the library called raised" is a failure every
    correct repair survives, "the library's own cleanup code failed" is not."""
    global _cleanup
    if _cleanup is not None:
        return _cleanup
    import ast
    out = {}
    root = os.path.join(REPO, 'emmet')
    for dirpath, dirnames, filenames in os.walk(root):
        if '__pycache__' in dirpath:
            continue
        for fn in filenames:
            if not fn.endswith('.py'):
                continue
            path = os.path.join(dirpath, fn)
            try:
                with open(path, 'rb') as fh:
                    tree = ast.parse(fh.read(), path)
            except (SyntaxError, ValueError, OSError):
                continue
            lines = set()
            for node in ast.walk(tree):
                if isinstance(node, (ast.Try, getattr(ast, 'TryStar', ast.Try))):
                    bodies = list(node.finalbody)
                    for h in node.handlers:
                        bodies.extend(h.body)
                    for st in bodies:
                        lines.update(range(st.lineno, (getattr(st, 'end_lineno', None) or st.lineno) + 1))
            if lines:
                out[os.path.relpath(path, root)] = lines
    _cleanup = out
    return out


_inventory = None


def f5_inventory():
    "set of (relative file, qualified name) at whose entries fault F5 may be delivered"
    global _inventory
    if _inventory is None:
        import json
        path = os.path.join(os.path.dirname(os.path.abspath(__file__)), 'f5_inventory.json')
        with open(path) as fh:
            data = json.load(fh)
        _inventory = set((rel, q) for rel, names in data.items() for q in names)
    return _inventory
