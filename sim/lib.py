"""Loads the library under test straight from the repository working tree.

The loader only *imports* modules (the zygote never calls into the library);
every call into py-emmet happens in a forked child: either a reference child
(one call in pristine state) or a run child (one simulated history).
"""
import importlib
import os
import pkgutil
import sys

REPO = os.path.realpath(os.environ.get('VERIF_REPO', '/repo'))

_loaded = None


class LibraryLoadError(Exception):
    pass


def load():
    "Imports every emmet.* module from REPO; returns the list of module objects"
    global _loaded
    if _loaded is not None:
        return _loaded

    sys.dont_write_bytecode = True
    if sys.path[0] != REPO:
        sys.path.insert(0, REPO)

    try:
        import emmet
    except Exception as err:  # noqa
        raise LibraryLoadError('cannot import emmet from %s: %r' % (REPO, err))

    origin = os.path.realpath(os.path.dirname(emmet.__file__))
    if origin != os.path.join(REPO, 'emmet'):
        raise LibraryLoadError('emmet imported from %s, expected %s/emmet' % (origin, REPO))

    mods = [emmet]
    for info in pkgutil.walk_packages(emmet.__path__, 'emmet.'):
        try:
            mods.append(importlib.import_module(info.name))
        except Exception as err:  # noqa
            raise LibraryLoadError('cannot import %s: %r' % (info.name, err))

    _loaded = mods
    return mods


def modules():
    "All currently imported emmet.* modules (includes ones imported lazily later)"
    return [m for name, m in sorted(sys.modules.items())
            if m is not None and (name == 'emmet' or name.startswith('emmet.'))]


def lib_prefix():
    return os.path.join(REPO, 'emmet') + os.sep


def tree_id():
    "Short content hash of the library sources (recorded in evidence files)"
    import hashlib
    h = hashlib.sha256()
    root = os.path.join(REPO, 'emmet')
    for dirpath, dirnames, filenames in sorted(os.walk(root)):
        dirnames.sort()
        if '__pycache__' in dirpath:
            continue
        for fn in sorted(filenames):
            if fn.endswith('.py'):
                p = os.path.join(dirpath, fn)
                h.update(os.path.relpath(p, root).encode())
                with open(p, 'rb') as fh:
                    h.update(fh.read())
    return h.hexdigest()[:16]
