"""C20 oracle: configuration layers, observed at every step of a history.

* no mutation  - the built-in tables must equal their pristine snapshot after
                 every op (taken when the run child starts, i.e. in the state of
                 the import-only zygote); the caller's user and global dicts
                 must be unchanged by Config(...) and by expand (except for the
                 top-level `text` key, which markup.parse() writes - not merging);
* precedence   - a reference model of the documented order predicts
                 Config.options/snippets/variables; built-in layer contents are
                 read from the pristine snapshot, never hard-coded;
* through expand - expand(abbr, user, global) must equal expand(abbr, flat) where
                 `flat` is one user layer holding the model's merged result.
"""
import copy
import random
import sys

from .util import sha, canon
from .world import describe_exception

SECTIONS = ('variables', 'snippets', 'options')

TABLES = (
    ('emmet.config', 'DEFAULT_CONFIG'),
    ('emmet.config', 'DEFAULT_OPTIONS'),
    ('emmet.config', 'SYNTAX_CONFIG'),
    ('emmet.config', 'DEFAULT_SYNTAXES'),
    ('emmet.config', 'SYNTAXES'),
    ('emmet.snippets', 'markup_snippets'),
    ('emmet.snippets', 'stylesheet_snippets'),
    ('emmet.snippets', 'xsl_snippets'),
    ('emmet.snippets', 'pug_snippets'),
    ('emmet.snippets', 'variables'),
    ('emmet.snippets.html', 'snippets'),
    ('emmet.snippets.css', 'snippets'),
    ('emmet.snippets.xsl', 'snippets'),
    ('emmet.snippets.pug', 'snippets'),
    ('emmet.snippets.variables', 'variables'),
)

KNOWN_SYNTAXES = ['html', 'xml', 'xsl', 'jsx', 'js', 'pug', 'slim', 'haml', 'vue', 'svelte',
                  'css', 'sass', 'scss', 'less', 'sss', 'stylus']


def freeze(obj, depth=0):
    "Hashable deep image of a JSON-like structure; callables and foreign objects by identity"
    if isinstance(obj, (str, int, float, bool, type(None))):
        return obj
    if depth > 12:
        return ('deep', id(obj))
    if isinstance(obj, dict):
        return ('d', tuple(sorted(((repr(k), freeze(v, depth + 1)) for k, v in obj.items()), key=lambda kv: kv[0])))
    if isinstance(obj, (list, tuple)):
        return ('l', tuple(freeze(v, depth + 1) for v in obj))
    if isinstance(obj, (set, frozenset)):
        return ('s', tuple(sorted(repr(v) for v in obj)))
    return ('obj', id(obj))


def safe_copy(obj, depth=0):
    "Deep copy of dicts/lists/tuples/sets; anything else (callables, iterators, ...) by reference"
    if depth > 12:
        return obj
    if isinstance(obj, dict):
        return {k: safe_copy(v, depth + 1) for k, v in obj.items()}
    if isinstance(obj, list):
        return [safe_copy(v, depth + 1) for v in obj]
    if isinstance(obj, tuple):
        return tuple(safe_copy(v, depth + 1) for v in obj)
    if isinstance(obj, (set, frozenset)):
        return type(obj)(obj)
    return obj


class Unmodellable(Exception):
    "A built-in layer is not a plain dict any more: the reference model does not apply"


def diff_keys(a, b):
    "Top-level keys on which two dicts differ (for messages)"
    if not isinstance(a, dict) or not isinstance(b, dict):
        return ['<not a dict>']
    out = []
    for k in sorted(set(list(a) + list(b)), key=repr):
        if k not in a or k not in b or freeze(a[k]) != freeze(b[k]):
            out.append(k)
    return out[:12]


class Monitor:
    def __init__(self, run):
        self.run = run
        self.pristine = {}
        self.frozen = {}
        for mod, name in TABLES:
            m = sys.modules.get(mod)
            if m is None or not hasattr(m, name):
                continue   # a refactor may move tables; what exists is watched
            obj = getattr(m, name)
            self.pristine[(mod, name)] = safe_copy(obj)
            self.frozen[(mod, name)] = freeze(obj)
        self.before = None
        self.cells = set()
        self.held = {}       # cid -> (id of the held Config, flattened config the model predicts for it)
        self.witness = {}    # pair id -> outcome of side 0

    # -- the reference model ---------------------------------------------------------------
    def P(self, name):
        return self.pristine[('emmet.config', name)]

    def model(self, user, glob):
        glob = glob or {}
        t = user.get('type', 'markup')
        s = user.get('syntax', self.P('DEFAULT_SYNTAXES').get(t, 'html'))
        syntax_config = self.P('SYNTAX_CONFIG')
        layers = [('type-defaults', syntax_config.get(t, {})), ('syntax-defaults', syntax_config.get(s, {})),
                  ('global-type', glob.get(t, {})), ('global-syntax', glob.get(s, {}))]
        merged = {}
        winner = {}
        for key in SECTIONS:
            res = {}
            win = {}
            base = self.P('DEFAULT_CONFIG').get(key, {})
            if not isinstance(base, dict):
                raise Unmodellable(key)
            res.update(base)
            for k in base:
                win[k] = 'built-in'
            for lname, layer in layers:
                if not isinstance(layer, dict):
                    raise Unmodellable(lname)
                if key in layer:
                    if not isinstance(layer[key], dict):
                        raise Unmodellable('%s.%s' % (lname, key))
                    res.update(layer[key])
                    for k in layer[key]:
                        win[k] = lname
            res.update(user.get(key, {}))
            for k in user.get(key, {}):
                win[k] = 'user'
            merged[key] = res
            winner[key] = win
        return t, s, merged, winner

    def note_cells(self, user, glob, t, s):
        glob = glob or {}
        syntax_config = self.P('SYNTAX_CONFIG')
        for kind in SECTIONS:
            keys = set()
            for layer in (syntax_config.get(t, {}), syntax_config.get(s, {}), glob.get(t, {}), glob.get(s, {}), user):
                keys.update((layer.get(kind) or {}).keys())
            # probe only keys some overriding layer mentions (non-trivial cells)
            for k in keys:
                bits = (k in (syntax_config.get(t, {}).get(kind) or {}), k in (syntax_config.get(s, {}).get(kind) or {}),
                        k in (glob.get(t, {}).get(kind) or {}), k in (glob.get(s, {}).get(kind) or {}),
                        k in (user.get(kind) or {}))
                sname = s if s in KNOWN_SYNTAXES else ('<unknown-%s>' % t if isinstance(t, str) else '<unknown>')
                self.cells.add(sha(canon([list(bits), sname, kind]))[:12])

    # -- no-mutation ------------------------------------------------------------------------
    def check_tables(self, i, op):
        for (mod, name), frozen in self.frozen.items():
            m = sys.modules.get(mod)
            live = getattr(m, name, None)
            if freeze(live) != frozen:
                self.run.violate('C20', 'no-mutation', 'builtin-table-modified:%s.%s' % (mod, name), i, {
                    'after-op': op, 'table': '%s.%s' % (mod, name),
                    'keys-that-differ-from-pristine': [repr(k) for k in diff_keys(self.pristine[(mod, name)], live)]})
                # report once per table: re-base so that later ops are still checked for new damage
                self.frozen[(mod, name)] = freeze(live)
        self.run.count('c20:table-snapshots-compared', len(self.frozen))

    def snapshot_caller(self, h):
        host = self.run.host
        glob = host.global_of(h.spec)
        return (freeze(h.user), freeze(glob), copy.copy(h.user) if h.user is not None else None)

    def check_caller(self, i, op, h, before, allow_text):
        host = self.run.host
        glob = host.global_of(h.spec)
        user_before, glob_before, shallow = before
        if freeze(glob) != glob_before:
            self.run.violate('C20', 'no-mutation', 'caller-dict-modified:global', i, {'op': op, 'global-now': repr(glob)[:600]})
        if h.user is not None and freeze(h.user) != user_before:
            cur = dict(h.user)
            old = dict(shallow)
            if allow_text:
                cur.pop('text', None)
                old.pop('text', None)
            if freeze(cur) != freeze(old) or not allow_text:
                # nested change or a top-level key other than `text`
                keys = diff_keys(old, cur)
                self.run.violate('C20', 'no-mutation', 'caller-dict-modified:user', i, {'op': op, 'keys-that-differ': [repr(k) for k in keys]})

    # -- hooks called by the runner -------------------------------------------------------------
    def flat_config(self, user, glob):
        try:
            t, s, merged, winner = self.model(user, glob)
        except Unmodellable:
            return None, None, None
        flat = {}
        for k, v in user.items():
            if k not in SECTIONS and k != 'cache':
                flat[k] = copy.deepcopy(v)
        flat['type'] = t
        flat['syntax'] = s
        for key in SECTIONS:
            flat[key] = merged[key]
        return t, s, flat

    def note_held(self):
        "A held Config is resolved when it is built: remember what the model predicts at that moment"
        host = self.run.host
        for cid, h in host.cfgs.items():
            if h.instance is None:
                continue
            known = self.held.get(cid)
            if known is None or known[0] is not h.instance:
                t, s, flat = self.flat_config(h.user, host.global_of(h.spec))
                if flat is not None:
                    self.held[cid] = (h.instance, flat, t, s)

    def after_op(self, i, op):
        self.note_held()
        if op['op'] == 'resolve':
            self.resolve(i, op)
        self.check_tables(i, op)

    def resolve(self, i, op):
        "Host builds Config(user, global) and looks at it"
        run = self.run
        host = run.host
        h = host.cfgs[op['cfg']]
        if h.user is None:
            return
        glob = host.global_of(h.spec)
        before = self.snapshot_caller(h)
        try:
            cfg = host.make_config(h.user, glob)
        except Exception as err:  # noqa
            run.violate('C20', 'precedence', 'config-construction-raised', i, {'op': op, 'error': describe_exception(err)})
            return
        self.check_caller(i, op, h, before, allow_text=False)
        try:
            t, s, merged, winner = self.model(h.user, glob)
        except Unmodellable:
            run.count('c20:built-in-layer-not-a-dict(model not applicable)')
            return
        self.note_cells(h.user, glob, t, s)
        run.count('c20:configs-resolved')
        if getattr(cfg, 'type', None) != t or getattr(cfg, 'syntax', None) != s:
            run.violate('C20', 'precedence', 'type-or-syntax', i, {'op': op, 'expected': [t, s],
                                                                     'got': [getattr(cfg, 'type', None), getattr(cfg, 'syntax', None)]})
            return
        for key in SECTIONS:
            got = getattr(cfg, key, None)
            exp = merged[key]
            if not isinstance(got, dict) or freeze(got) != freeze(exp):
                bad = diff_keys(exp, got)
                k0 = bad[0] if bad else None
                run.violate('C20', 'precedence', 'resolved-config:%s' % key, i, {
                    'op': op, 'type': t, 'syntax': s, 'section': key, 'keys-that-differ': [repr(k) for k in bad],
                    'first-key': repr(k0), 'layer-that-should-win': winner[key].get(k0, 'nobody (key must be absent)'),
                    'expected': repr(exp.get(k0, '<absent>'))[:200] if isinstance(exp, dict) else None,
                    'got': repr(got.get(k0, '<absent>'))[:200] if isinstance(got, dict) else repr(got)[:200],
                    'user-layer': repr((h.user.get(key) or {}))[:300], 'global': repr(glob)[:600]})
                return
        if op.get('poke'):
            # the host writes into ITS resolved Config (as the repository's own tests do with
            # `config.options[...] = ...`): top-level assignments only. Merging must have given it
            # fresh dicts, so neither the built-in tables nor the caller's layers may change.
            before2 = self.snapshot_caller(h)
            try:
                cfg.options['output.indent'] = '<poked>'
                cfg.options['poked.flag'] = True
                cfg.snippets['pokedsnippet'] = 'div.poked'
                cfg.snippets['a'] = 'a.poked'
                cfg.variables['lang'] = 'poked'
                cfg.variables['pokedvar'] = 'poked'
            except Exception:  # noqa -- a read-only view would be fine too
                pass
            run.count('c20:resolved-configs-written-to-by-the-host')
            self.check_caller(i, dict(op, note='after the host assigned into the resolved Config'), h, before2, allow_text=False)

    def before_call(self, i, op):
        h = self.run.host.cfgs[op['cfg']]
        self.before = self.snapshot_caller(h)

    def after_call(self, i, op, outcome, fault, info):
        run = self.run
        host = run.host
        h = host.cfgs[op['cfg']]
        if self.before is not None:
            self.check_caller(i, op, h, self.before, allow_text=True)
            self.before = None
        if not op.get('c20'):
            return
        if fault is not None or outcome[0].startswith('fault'):
            return
        w = op.get('c20w')
        if w:
            # the same call under two values of one key coming from one layer: the documented meaning of
            # the key makes the outputs differ, whichever layer the value comes from
            if w['side'] == 0:
                self.witness[w['pair']] = outcome
            elif w['pair'] in self.witness:
                run.count('c20:witness-pairs-compared')
                if self.witness[w['pair']] == outcome:
                    run.violate('C20', 'precedence', 'value-from-layer-has-no-effect', i, {
                        'key': w['key'], 'layer': w['layer'], 'values': w['values'], 'abbr': op['abbr'], 'cfg': op['cfg'],
                        'holder': h.spec.get('holder'), 'output under both values': outcome})
        glob = host.global_of(h.spec)
        user = h.user if h.user is not None else {}
        self.check_callbacks(i, op, h, user, glob, outcome)
        if h.spec.get('holder') == 'Config':
            # a held Config keeps the layers as they were when it was built
            known = self.held.get(op['cfg'])
            if known is None or known[0] is not h.instance:
                return
            _inst, flat, t, s = known
            flat = dict(flat)
            for k in ('text', 'maxRepeat', 'max_repeat'):
                # (these are read from the dict behind the Config at call time)
                if k in user:
                    flat[k] = copy.deepcopy(user[k])
                else:
                    flat.pop(k, None)
            run.count('c20:held-Config-compared-with-flattened-config')
        else:
            t, s, flat = self.flat_config(user, glob)
            if flat is None:
                run.count('c20:built-in-layer-not-a-dict(model not applicable)')
                return
            self.note_cells(user, glob, t, s)
        random.seed(op.get('pin', 0))
        # (the host's recorder objects answer as a function of their invocation number: same start for both runs)
        host.gpeer.begin()
        if h.peer is not None:
            h.peer.begin()
        try:
            res = host.emmet.expand(op['abbr'], flat)
            flat_outcome = ['ok', res] if isinstance(res, str) else ['ok-nonstr', repr(res)[:300]]
        except Exception as err:  # noqa
            flat_outcome = describe_exception(err)
        run.count('c20:expand-compared-with-flattened-config')
        if flat_outcome != outcome:
            run.violate('C20', 'precedence', 'through-expand', i, {
                'op': op, 'type': t, 'syntax': s,
                'expand(abbr, user, global)': outcome, 'expand(abbr, {merged by the reference model})': flat_outcome,
                'user': repr({k: user.get(k) for k in SECTIONS if k in user})[:600], 'global': repr(glob)[:800]})

    def check_callbacks(self, i, op, h, user, glob, outcome):
        """output.field / output.text are option values like any other: the callable that is consulted must be
        the very object the most specific defining layer holds (the caller's callbacks are stateful editor
        objects; a copy of them is not them). Observed on the two recorder objects of the host."""
        run = self.run
        host = run.host
        if outcome[0] != 'ok' or not outcome[1]:
            return
        if h.spec.get('holder') == 'Config':
            known = self.held.get(op['cfg'])
            if known is None or known[0] is not h.instance:
                return
            opts = known[1].get('options') or {}
        else:
            try:
                _t, _s, flat = self.flat_config(user, glob)
            except Exception:  # noqa
                return
            if flat is None:
                return
            opts = flat.get('options') or {}
        owners = []
        for key in ('output.text', 'output.field'):
            fn = opts.get(key)
            owner = getattr(fn, '__self__', None)
            if owner is host.gpeer or (h.peer is not None and owner is h.peer):
                owners.append((key, owner))
        if not owners:
            return
        run.count('c20:callback-options-checked')
        if not any(owner.n > 0 for _k, owner in owners):
            who = 'the call config' if owners[0][1] is h.peer else 'the global config'
            run.violate('C20', 'precedence', 'callback-option-not-consulted', i, {
                'abbr': op['abbr'], 'cfg': op['cfg'], 'holder': h.spec.get('holder'), 'entry': op.get('entry', 'expand'),
                'what': 'the output.text / output.field callables that %s defines (and that the layered merge makes effective) '
                        'were not invoked once while a non-empty result was produced: the library consulted something else '
                        '(a copy, a default, another layer)' % who,
                'result': outcome[1][:200]})

    def finish(self):
        return sorted(self.cells)
