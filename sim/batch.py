"""Batch driver: seeded search over many simulated runs, aggregation,
minimisation, replay files, known findings, evidence."""
import json
import os
import subprocess
import sys
import time

from . import lib
from .forkpool import Pool, ChildError
from .minimise import Minimiser, vkey, vkey_str
from .simulate import simulate
from .util import h64, sha, canon, short

VERIF = os.path.dirname(os.path.dirname(os.path.abspath(__file__)))
# (the directories can be redirected so that self-tests against scratch copies of the
# repository never touch the real evidence and replay files)
EVIDENCE_DIR = os.environ.get('VERIF_EVIDENCE_DIR') or os.path.join(VERIF, 'evidence')
REPLAY_DIR = os.environ.get('VERIF_REPLAY_DIR') or os.path.join(VERIF, 'replays')
KNOWN_FILE = os.environ.get('VERIF_KNOWN_FILE') or os.path.join(VERIF, 'known_findings.json')

ASSUMPTIONS = [
    'A1 a cache dict is shared only between calls whose merged stylesheet snippet table is equal (the cache carries no identity of the table it was built from)',
    'A2 answers of the simulated output.field/output.text callbacks contain no line-break characters; a pushed text containing a line break or the configured newline is returned unchanged',
    'A3 results of lorem-bearing calls are compared modulo the pinned global `random` stream (random.seed(pin) before every call, in the system under test and in the reference)',
    'A4 option values have their documented types; output.indent and output.baseIndent contain no line breaks (indentation is what follows a line break)',
    'A5 abbreviations are strings (pre-parsed trees are not part of expand()\'s contract)',
    'A6 no concurrent or re-entrant calls (the properties quantify over histories, not schedules)',
    'reference = the same py-emmet working tree imported into an import-only zygote and forked per call; a defect that is present identically in a pristine interpreter is invisible to the differential oracle',
]

REAL_STUB = {
    'real': 'the whole emmet package from /repo\'s working tree, unmodified (no hooks), driven through emmet.expand / expand_markup / expand_stylesheet / Config',
    'simulated': 'the host (editor plugin): its config dicts, held Config instances, cache dicts, global config and the settings edits/clones/rebuilds between calls; the editor callbacks output.field/output.text (seeded peer); the pinned global PRNG; recursion-limit and function-entry faults',
    'reference': 'the same package in a pristine forked interpreter, one fork per distinct call spec',
    'absent': 'threads, clocks/timers, network, disk: py-emmet has none, so no simulated time exists (logical time = op index)',
}


def get_profile(name):
    from . import profiles
    return profiles.PROFILES[name]


def run_seed(verif_seed, profile, index):
    return h64(verif_seed, profile, index)


def _worker_init():
    pass


_cov_seen = set()   # per worker: library lines already reported to the main process


def _task(payload):
    profile_name, verif_seed, index, keep, tier = payload
    prof = get_profile(profile_name)
    # (seeded histories keep the seeds they had before the deterministic prefix grew: the seeded
    #  changes of DESIGN section 12 were evaluated on exactly these histories)
    shift = prof['seed_shift'](tier) if prof.get('seed_shift') else 0
    fixed = prof['fixed_runs'](tier) if prof.get('fixed_runs') else 0
    seed = run_seed(verif_seed, profile_name, index - shift if index >= fixed else index)
    if prof.get('gen_indexed'):
        hist = prof['gen_indexed'](seed, index, tier)
    else:
        hist = prof['gen'](seed)
    res = simulate(hist, prof['props'], prof.get('opts'))
    out = {
        'index': index,
        'seed': seed,
        'digest': res['digest'],
        'violations': res['violations'],
        'counters': res['counters'],
        'states': res['states'],
        'transitions': res['transitions'],
        'shape': res['shape'],
        'nontrivial': res['nontrivial'],
        'n_ops': len(hist['ops']),
        'extra': res.get('extra') or {},
        'distinct_keys': res.get('distinct_keys') or [],
    }
    new = [tuple(x) for x in (res.get('libcov') or []) if tuple(x) not in _cov_seen]
    if new:
        _cov_seen.update(new)
        out['libcov_new'] = new
    if res['violations'] or keep:
        out['hist'] = {'world': hist['world'], 'ops': hist['ops'], 'meta': hist.get('meta')}
        out['faults'] = res.get('faults')
    return out


class BatchResult:
    def __init__(self):
        self.runs = 0
        self.ops = 0
        self.counters = {}
        self.states = set()
        self.transitions = set()
        self.shapes = set()
        self.nontrivial_shapes = set()
        self.distinct_keys = set()
        self.digests = []
        self.violating = []      # (index, out)
        self.samples = []
        self.extra = {}
        self.libcov = set()

    def add(self, out):
        self.libcov.update(tuple(x) for x in out.get('libcov_new') or ())
        self.runs += 1
        self.ops += out['n_ops']
        for k, v in out['counters'].items():
            self.counters[k] = self.counters.get(k, 0) + v
        self.states.update(out['states'])
        self.transitions.update(out['transitions'])
        self.shapes.add(out['shape'])
        if out['nontrivial']:
            self.nontrivial_shapes.add(out['shape'])
        self.distinct_keys.update(out.get('distinct_keys') or [])
        for k, v in (out.get('extra') or {}).items():
            if isinstance(v, (int, float)):
                self.extra[k] = max(self.extra.get(k, 0), v)
        if out['violations']:
            self.violating.append(out)
        if 'hist' in out and not out['violations'] and len(self.samples) < 5:
            self.samples.append(out)

    def batch_digest(self):
        return sha(canon(self.digests))


def run_batch(profile_name, verif_seed, n_runs, workers, wall_limit, first_index=0, progress=None, tier='quick'):
    lib.load()
    res = BatchResult()
    fixed = get_profile(profile_name).get('fixed_runs')
    n_fixed = fixed(tier) if fixed else 0
    # samples: the first deterministic histories and the first seeded ones
    keep = set([0, 1, n_fixed, n_fixed + 1, n_fixed + 2])
    payloads = [(profile_name, verif_seed, first_index + i, (first_index + i) in keep, tier) for i in range(n_runs)]
    pool = Pool(workers, _task, _worker_init)
    try:
        outs = pool.run(payloads, wall_limit=wall_limit, on_result=progress)
    except ChildError:
        pool.kill()
        raise
    else:
        pool.close()
    for out in outs:
        res.digests.append(out['digest'])
        res.add(out)
    return res


# ---------------------------------------------------------------------------
# known findings

def load_known():
    if not os.path.exists(KNOWN_FILE):
        return {'findings': []}
    with open(KNOWN_FILE) as fh:
        return json.load(fh)


def match_known(known, prop, key, hist, violation):
    """A finding listed as `known` suppresses exactly the violations its
    `match` clause describes; `fixed` entries suppress nothing."""
    for f in known.get('findings', []):
        if f.get('status') != 'known' or f.get('property') != prop:
            continue
        m = f.get('match') or {}
        if m.get('key') and m['key'] != vkey_str(key):
            continue
        ok = True
        for needle in m.get('detail_contains', []):
            if needle not in canon(violation.get('detail')):
                ok = False
        for needle in m.get('history_contains', []):
            if needle not in canon([hist['world'], hist['ops']]):
                ok = False
        if ok:
            return f
    return None


# ---------------------------------------------------------------------------
# replay

def write_replay(prop, key, hist, violation, verif_seed, run_index, seed, faults, minimised, note=None):
    os.makedirs(REPLAY_DIR, exist_ok=True)
    body = {
        'property': prop,
        'key': list(key),
        'oracle': violation['oracle'],
        'subkind': violation['subkind'],
        'failing_op': violation['op'],
        'verif_seed': verif_seed,
        'run_index': run_index,
        'run_seed': seed,
        'minimised': minimised,
        'world': hist['world'],
        'ops': hist['ops'],
        'resolved_faults': faults,
        'detail': violation['detail'],
        'tree': lib.tree_id(),
        'note': note,
    }
    name = '%s-%s-%s.json' % (prop, vkey_str(key).replace('/', '_').replace(':', '-'), sha(canon([hist['world'], hist['ops']]))[:10])
    path = os.path.join(REPLAY_DIR, name)
    with open(path, 'w') as fh:
        json.dump(body, fh, indent=1, sort_keys=True)
        fh.write('\n')
    return path


def replay_file(path, props=None):
    "Re-executes a replay file; returns (reproduced, result, expected key)"
    lib.load()
    with open(path) as fh:
        body = json.load(fh)
    prof = get_profile(body['property'])
    hist = {'world': body['world'], 'ops': body['ops']}
    res = simulate(hist, props or prof['props'], prof.get('opts'))
    key = tuple(body['key'])
    hit = [v for v in res['violations'] if vkey(v) == key]
    return bool(hit), res, key


def verify_replay_fresh(path):
    "Replays in a fresh process; True iff it fails the same way there"
    cmd = [sys.executable, os.path.join(VERIF, 'bin', 'check'), '--replay', path, '--quiet']
    env = dict(os.environ)
    p = subprocess.run(cmd, env=env, stdout=subprocess.PIPE, stderr=subprocess.STDOUT, timeout=600)
    return p.returncode == 1 and b'REPRODUCED' in p.stdout


# ---------------------------------------------------------------------------
# evidence

def write_evidence(prop, tier, verif_seed, level, coverage, wall_s, violations, extra_assumptions=()):
    os.makedirs(EVIDENCE_DIR, exist_ok=True)
    body = {
        'property_id': prop,
        'tier': tier,
        'seed': int(verif_seed),
        'level': level,
        'coverage': coverage,
        'assumptions': list(ASSUMPTIONS) + list(extra_assumptions),
        'wall_s': round(wall_s, 2),
        'violations': int(violations),
    }
    path = os.path.join(EVIDENCE_DIR, '%s.json' % prop)
    tmp = path + '.tmp'
    with open(tmp, 'w') as fh:
        json.dump(body, fh, indent=1, sort_keys=True)
        fh.write('\n')
    os.replace(tmp, path)
    return path


def sample_of(out, max_ops=24):
    h = out['hist']
    ops = h['ops']
    faults = out.get('faults')
    s = {'run_index': out['index'], 'run_seed': out['seed'], 'kind': (h.get('meta') or {}), 'world': h['world'],
         'n_ops': len(ops), 'ops': ops[:max_ops], 'resolved_faults': (faults[:max_ops] if faults else faults)}
    if len(ops) > max_ops:
        s['note'] = 'history truncated for the evidence file: first %d of %d ops shown' % (max_ops, len(ops))
    return s


# ---------------------------------------------------------------------------
# the check

def check(prop, tier, verif_seed, n_runs, workers, wall_limit, quiet=False):
    t0 = time.time()
    prof = get_profile(prop)
    lib.load()

    def say(msg):
        if not quiet:
            print(msg, flush=True)

    say('check %s tier=%s seed=%d runs=%d workers=%d tree=%s' % (prop, tier, verif_seed, n_runs, workers, lib.tree_id()))
    prog = {'done': 0, 'bad': 0, 'next': max(5000, n_runs // 20)}

    def progress(idx, out):
        prog['done'] += 1
        if out['violations']:
            prog['bad'] += 1
        if n_runs >= 20000 and prog['done'] >= prog['next']:
            prog['next'] += max(5000, n_runs // 20)
            say('  progress: %d/%d runs, %d violating, %.0fs' % (prog['done'], n_runs, prog['bad'], time.time() - t0))

    res = run_batch(prop, verif_seed, n_runs, workers, wall_limit, progress=progress, tier=tier)
    t_batch = time.time() - t0

    # group violations by class; minimise the lowest run index of each class
    known = load_known()
    by_key = {}
    for out in res.violating:
        for v in out['violations']:
            if v['property'] != prop:
                continue
            by_key.setdefault(vkey(v), []).append((out, v))
    new_violations = 0
    known_hits = []
    replay_paths = []
    for key in sorted(by_key):
        items = by_key[key]
        out, v = min(items, key=lambda it: (it[0]['index'], it[1]['op']))
        hist = {'world': out['hist']['world'], 'ops': out['hist']['ops']}
        say('  violation class %s: %d runs, first at run %d op %d; minimising…' % (vkey_str(key), len(set(o['index'] for o, _ in items)), out['index'], v['op']))
        m = Minimiser(simulate, prof['props'], key, budget=prof.get('min_budget', 400), validator=prof.get('validator'))
        small = m.run(hist)
        minimised = small is not None
        if small is None:
            small = hist
            vv = v
            faults = out.get('faults')
        else:
            r2 = simulate(small, prof['props'], prof.get('opts'))
            hits = [x for x in r2['violations'] if vkey(x) == key]
            vv = hits[0] if hits else v
            faults = r2.get('faults')
        kf = match_known(known, prop, key, small, vv)
        if kf is not None:
            known_hits.append((kf, key))
            continue
        path = write_replay(prop, key, small, vv, verif_seed, out['index'], out['seed'], faults, minimised)
        ok = False
        try:
            ok = verify_replay_fresh(path)
        except Exception as err:  # noqa
            say('  replay verification failed to run: %r' % (err,))
        say('  minimised to %d ops (%d candidates); replay %s in a fresh process: %s' % (
            len(small['ops']), m.tried, path, 'reproduced' if ok else 'NOT reproduced'))
        say('  detail: %s' % short(vv['detail'], 600))
        new_violations += 1
        replay_paths.append((key, path))

    wall = time.time() - t0
    cov = prof['coverage'](res, n_runs, t_batch, workers)
    cov['batch_digest'] = res.batch_digest()
    cov['tree'] = lib.tree_id()
    cov['violating_runs'] = len(res.violating)
    cov['violation_classes'] = [vkey_str(k) for k in sorted(by_key)]
    cov['known_findings_hit'] = [k.get('id') for k, _ in known_hits]
    cov['components'] = REAL_STUB
    from . import libcov
    if libcov.ENABLED:
        cov['library_reach'] = libcov.report(res.libcov)
    write_evidence(prop, tier, verif_seed, prof.get('level', 'exploration'), cov, wall,
                   new_violations, prof.get('assumptions', ()))
    for kf, key in known_hits:
        print('KNOWN-FINDING: property=%s %s' % (prop, kf.get('what', kf.get('id'))), flush=True)
    for key, path in replay_paths:
        print('VIOLATION property=%s replay=%s' % (prop, path), flush=True)
    warn = prof.get('warnings')
    if warn:
        for w in warn(res, tier):
            say('WARNING: ' + w)
    say('%s: %d runs, %d ops, %.1fs (%.0f runs/hour), %d violating runs, %d new violation classes, digest %s' % (
        prop, res.runs, res.ops, wall, res.runs / max(t_batch, 1e-6) * 3600, len(res.violating), new_violations,
        res.batch_digest()[:16]))
    return 1 if new_violations else 0
