"""C13 oracle: the editor's view of a call, checked against the final string.

Formulated the way the property states it (slices of the final result), never
via OutputStream internals:

* placement : R[offset_k : offset_k+len(ret_k)] == ret_k, regions in invocation
              order, pairwise disjoint;
* line      : line_k == number of newline strings in R[:offset_k];
* column    : column_k == offset_k - (start of that line);
* numbering : from the `index` arguments in invocation (= document) order.

The stronger "R is exactly the concatenation of all answers" holds today but is
not demanded (a refactor may write the newline without consulting output.text).
"""
import re

from .peer import LINE_BREAKS
from .util import sha, canon

PH = re.compile(r'^v(\d+)i(\d+)([a-z])$')


def effective_newline(spec):
    nl = (spec.get('options') or {}).get('output.newline')
    return nl if isinstance(nl, str) and nl else None


_vocab = None


NOTHING = object()


def count_model_applies(meta, spec_text=None, spec_booleans=None, spec_syntax=NOTHING, spec_options=None, spec_snippets=None):
    """The tabstop count model assumes element names outside every snippet table and
    attribute names outside the boolean-attribute list; the tables are read (data only)
    so that a legitimate change of them switches the count check off instead of alarming."""
    global _vocab
    if _vocab is None:
        import sys
        keys = set()
        sn = sys.modules.get('emmet.snippets')
        for name in ('markup_snippets', 'xsl_snippets', 'pug_snippets'):
            keys.update(getattr(sn, name, {}) or {})
        cfg = sys.modules.get('emmet.config')
        booleans = set((getattr(cfg, 'DEFAULT_OPTIONS', {}) or {}).get('output.booleanAttributes') or [])
        _vocab = (keys, booleans)
    keys, booleans = _vocab
    if any(n in keys for n in meta.get('names', ())):
        return False
    if meta.get('wrap') != spec_text:
        return False        # the count was made for another wrap text (e.g. a minimisation candidate)
    if spec_booleans is not None and list(meta.get('booleans') or []) != list(spec_booleans):
        return False        # ... or for another list of boolean attributes
    if spec_booleans is None and meta.get('booleans'):
        return False
    if 'bem' in meta and bool(meta['bem']) != bool((spec_options or {}).get('bem.enabled')):
        return False
    if 'snippets' in meta and sorted(meta['snippets']) != sorted(spec_snippets or {}):
        return False
    if meta.get('formatter') is not None and spec_syntax is not NOTHING and \
            (meta['formatter'] == 'indent') != (spec_syntax in ('pug', 'slim', 'haml')):
        return False        # ... or for the other formatter family
    if spec_booleans is None and any(a.lower() in booleans for a in meta.get('attrs', ())):
        return False
    return True


def skeleton(abbr):
    s = re.sub(r'[a-zA-Z]+', 'a', abbr)
    s = re.sub(r'\d+', '1', s)
    return s[:80]


def check_call(run, i, op, result):
    h = run.host.cfgs[op['cfg']]
    peer = h.peer
    if peer is None:
        return
    log = peer.log
    run.count('c13:calls-observed')
    run.count('c13:callback-invocations', len(log))
    spec = h.spec
    meta = op.get('c13') or {'mode': 'positions'}

    def bad(subkind, detail):
        d = {'abbr': op['abbr'], 'cfg': op['cfg'], 'syntax': spec.get('syntax'), 'peer': spec.get('peer'),
             'options': spec.get('options'), 'result': result}
        d.update(detail)
        run.violate('C13', 'editor-view', subkind, i, d)

    # -- arguments -----------------------------------------------------------------
    for k, (kind, index, given, offset, line, column, ret) in enumerate(log):
        if not (isinstance(offset, int) and isinstance(line, int) and isinstance(column, int)) or \
                isinstance(offset, bool) or offset < 0 or line < 0 or column < 0:
            bad('callback-args', {'invocation': k + 1, 'kind': kind, 'offset': offset, 'line': line, 'column': column})
            return
        if not isinstance(ret, str):
            return

    # -- placement -------------------------------------------------------------------
    R = result
    end_prev = 0
    for k, (kind, index, given, offset, line, column, ret) in enumerate(log):
        if R[offset:offset + len(ret)] != ret or offset + len(ret) > len(R):
            bad('placement', {'invocation': k + 1, 'kind': kind, 'given': given, 'returned': ret, 'offset': offset,
                              'found-there': R[offset:offset + len(ret) + 8]})
            return
        if offset < end_prev:
            bad('placement-overlap', {'invocation': k + 1, 'kind': kind, 'returned': ret, 'offset': offset,
                                      'previous-region-ends': end_prev})
            return
        end_prev = offset + len(ret)

    # -- line / column -----------------------------------------------------------------
    nl = effective_newline(spec)
    scorable = nl is not None
    if scorable:
        rest = R.replace(nl, '')
        for ch in rest:
            if ch in LINE_BREAKS:
                scorable = False
                break
    if not scorable:
        run.count('c13:calls-unscorable-for-line/column')
    else:
        run.count('c13:calls-scored-for-line/column')
        # positions of line starts
        starts = [0]
        pos = R.find(nl)
        while pos != -1:
            starts.append(pos + len(nl))
            pos = R.find(nl, pos + len(nl))
        li = 0
        for k, (kind, index, given, offset, line, column, ret) in enumerate(log):
            while li + 1 < len(starts) and starts[li + 1] <= offset:
                li += 1
            exp_line = li
            exp_col = offset - starts[li]
            if line != exp_line:
                bad('line', {'invocation': k + 1, 'kind': kind, 'returned': ret, 'offset': offset,
                             'line-given': line, 'line-in-result': exp_line})
                return
            if column != exp_col:
                bad('column', {'invocation': k + 1, 'kind': kind, 'returned': ret, 'offset': offset, 'line': line,
                               'column-given': column, 'column-in-result': exp_col})
                return

    # -- numbering -----------------------------------------------------------------------
    fields = [(index, given) for (kind, index, given, offset, line, column, ret) in log if kind == 'field']
    mode = meta.get('mode')
    if mode == 'auto':
        run.count('c13:calls-numbering-auto')
        idx = [ix for ix, _ in fields]
        if idx != list(range(1, len(idx) + 1)):
            bad('numbering-document-order', {'indices-in-document-order': idx})
            return
        if 'expect' in meta and not count_model_applies(meta, spec.get('text'), (spec.get('options') or {}).get('output.booleanAttributes'), spec.get('syntax'), spec.get('options'), spec.get('snippets')):
            run.count('c13:count-model-not-applicable(vocabulary now in a snippet table / boolean list)')
        elif 'expect' in meta:
            run.count('c13:calls-numbering-counted')
            if len(idx) != meta['expect'] and len(idx) != meta.get('expect_alt', meta['expect']):
                bad('numbering-count', {'tabstops': len(idx), 'empty-values-and-leaves-in-abbreviation': meta['expect']})
                return
    elif mode == 'explicit':
        run.count('c13:calls-numbering-explicit')
        if 'expect_anon' in meta and count_model_applies(meta, spec.get('text'), (spec.get('options') or {}).get('output.booleanAttributes'), spec.get('syntax'), spec.get('options'), spec.get('snippets')) \
                and not (spec.get('options') or {}).get('bem.enabled'):
            run.count('c13:calls-numbering-anonymous-counted')
            anon = len([1 for _ix, ph in fields if not ph])
            if anon != meta['expect_anon'] and anon != meta.get('expect_anon_alt', meta['expect_anon']):
                bad('numbering-count', {'tabstops-with-empty-placeholder': anon,
                                        'empty-values-and-leaves-in-abbreviation': meta['expect_anon']})
                return
        if 'expect_named' in meta and count_model_applies(meta, spec.get('text'), (spec.get('options') or {}).get('output.booleanAttributes'),
                                                        spec.get('syntax'), spec.get('options'), spec.get('snippets')):
            run.count('c13:calls-named-fields-checked')
            seen_ph = set(ph for _ix, ph in fields if ph)
            missing = [ph for ph in meta['expect_named'] if ph not in seen_ph]
            if missing:
                bad('numbering-missing-field', {'explicit fields written in the abbreviation that never reached output.field': missing[:6]})
                return
        instances = []      # list of (value id or None, [(observed, written or None, placeholder)])
        cur = None
        for observed, ph in fields:
            m = PH.match(ph or '')
            if not m:
                instances.append((None, [(observed, None, ph)]))
                cur = None
                continue
            vid, written = int(m.group(1)), int(m.group(2))
            # the fields of one output instance of a value arrive in the order they are written in
            # (the letter is the position): a placeholder that is not to the right of the previous one
            # starts a new instance (a repetition, or another element using the same snippet)
            if cur is None or cur[0] != vid or ph[-1] <= cur[1][-1][2][-1]:
                cur = (vid, [])
                instances.append(cur)
            cur[1].append((observed, written, ph))
        seen = {}
        for n, (vid, items) in enumerate(instances):
            if vid is not None:
                o0, w0, _ = items[0]
                for o, w, ph in items[1:]:
                    if o - o0 != w - w0:
                        bad('numbering-relative', {'value': vid, 'fields(observed, written, placeholder)': items})
                        return
            for o in set(o for o, _, _ in items):
                if o in seen and seen[o] != n:
                    bad('numbering-collision', {'index': o, 'values': [instances[seen[o]], (vid, items)]})
                    return
                seen[o] = n
            for o, _, _ in items:
                if not isinstance(o, int) or o < 0:
                    bad('numbering-negative', {'index': o})
                    return

    # -- coverage measure -------------------------------------------------------------------
    changed = any(isinstance(ret, str) and isinstance(given, str) and len(ret) != len(given)
                  for (kind, index, given, offset, line, column, ret) in log)
    lines = (R.count(nl) + 1) if nl else 1
    if len(log) >= 3 and changed and (lines >= 2 or len(fields) >= 2):
        opts = spec.get('options') or {}
        key = sha(canon([skeleton(op['abbr']), spec.get('syntax'), opts.get('output.newline'), opts.get('output.indent'),
                         opts.get('output.baseIndent'), opts.get('output.format'), (spec.get('peer') or {}).get('style')]))[:16]
        run.distinct.add(key)
        run.count('c13:calls-nontrivial')
