"""Live objects of a simulated host and the execution of single calls.

Used identically by the run child (system under test: one interpreter lives
through the whole history) and by the reference child (one call in a pristine
fork of the import-only zygote).
"""
import copy
import random
import sys

from . import lib
from .peer import Peer, PeerFault
from .util import jcopy, sha, canon
from .hostmodel import SECTIONS, cfg_type


class InjectedFault(Exception):
    "Fault F5: a function of the library 'fails' on entry"


class InjectedInterrupt(BaseException):
    """Fault F5, interrupt flavour: the failure delivered at a function entry is
    not an `Exception` subclass (like KeyboardInterrupt). A repair that restores
    state in `finally:` survives it, one that uses `except Exception:` does not."""


class HarnessError(Exception):
    pass


# ---------------------------------------------------------------------------
# tracing of function entries (used for F5 and for the entry histogram)

class EntryTracer:
    """sys.settrace hook that only looks at `call` events of library frames.

    mode 'count': histogram of entries per function
    mode 'nth'  : raise InjectedFault on the n-th library function entry
    mode 'func' : raise InjectedFault on the k-th entry into one function
    """

    def __init__(self, mode, n=None, func=None, k=None, exc=None):
        self.exc = InjectedInterrupt if exc == 'base' else InjectedFault
        self.cleanup = lib.cleanup_lines()
        self.inventory = lib.f5_inventory()
        self.skipped = 0
        self.prefix = lib.lib_prefix()
        self.plen = len(self.prefix)
        self.mode = mode
        self.n = n
        self.func = tuple(func) if func else None
        self.k = k
        self.total = 0
        self.seen = 0
        self.counts = {}
        self.fired = False
        self.where = None

    def __call__(self, frame, event, arg):
        if event != 'call':
            return None
        code = frame.f_code
        fn = code.co_filename
        if not fn.startswith(self.prefix):
            return None
        self.total += 1
        mode = self.mode
        if mode == 'count':
            key = '%s:%s' % (fn[self.plen:], code.co_qualname)
            self.counts[key] = self.counts.get(key, 0) + 1
        elif mode == 'nth':
            if self.total == self.n and not self.fired:
                if not self.eligible(frame):
                    self.n += 1          # deliver at the next eligible entry instead
                    self.skipped += 1
                    return None
                self.fired = True
                self.where = (fn[self.plen:], code.co_qualname)
                raise self.exc('injected at entry %d: %s:%s' % (self.total, self.where[0], self.where[1]))
        elif mode == 'func':
            if (fn[self.plen:], code.co_qualname) == self.func:
                self.seen += 1
                if self.seen == self.k and not self.fired:
                    if not self.eligible(frame):
                        self.k += 1
                        self.skipped += 1
                        return None
                    self.fired = True
                    self.where = self.func
                    raise self.exc('injected at entry %d of %s:%s' % (self.k, self.func[0], self.func[1]))
        return None


def _eligible(self, frame):
    """F5 is delivered only at fresh entries of ordinary functions that the pinned tree
    already had (sim/f5_inventory.json), and never while any library frame on the stack is
    inside a `finally:` body or an `except` handler (or while a generator-based /
    class-based context manager is being left)."""
    code = frame.f_code
    if code.co_flags & 0x2A0:      # CO_GENERATOR | CO_COROUTINE | CO_ASYNC_GENERATOR
        return False
    if (code.co_filename[self.plen:], code.co_qualname) not in self.inventory:
        # a function the pinned tree did not have: it may be the cleanup code itself
        return False
    if code.co_name in ('__exit__', '__aexit__', '__del__', '__enter__'):
        return False
    f = frame.f_back
    prefix, plen, cleanup = self.prefix, self.plen, self.cleanup
    while f is not None:
        fn = f.f_code.co_filename
        if fn.startswith(prefix):
            lines = cleanup.get(fn[plen:])
            if lines and f.f_lineno in lines:
                return False
        f = f.f_back
    return True


EntryTracer.eligible = _eligible


def frame_depth():
    d = 0
    f = sys._getframe()
    while f is not None:
        d += 1
        f = f.f_back
    return d


# ---------------------------------------------------------------------------
# outcome and traceback description

def describe_exception(err):
    cls = type(err)
    msg = getattr(err, 'message', None)
    if not isinstance(msg, str):
        msg = str(err)
    pos = getattr(err, 'pos', None)
    if not isinstance(pos, (int, type(None))):
        pos = repr(pos)
    return ['raise', '%s.%s' % (cls.__module__, cls.__qualname__), msg, pos]


STAGE_RULES = (
    ('css_abbreviation/tokenizer', 'css-tokenize'),
    ('css_abbreviation/', 'css-parse'),
    ('abbreviation/tokenizer', 'tokenize'),
    ('abbreviation/parser', 'parse'),
    ('abbreviation/', 'convert'),
    ('markup/snippets.py', 'snippets'),
    ('markup/format/', 'format'),
    ('markup/__init__.py', 'markup-entry'),
    ('markup/', 'transform'),
    ('stylesheet/format.py', 'css-format'),
    ('stylesheet/snippets.py', 'css-snippets'),
    ('stylesheet/', 'css-resolve'),
    ('config.py', 'config'),
    ('__init__.py', 'entry'),
)


def lib_frames(tb):
    prefix = lib.lib_prefix()
    out = []
    while tb is not None:
        code = tb.tb_frame.f_code
        fn = code.co_filename
        if fn.startswith(prefix):
            out.append((fn[len(prefix):], code.co_name))
        tb = tb.tb_next
    return out


def classify_traceback(tb):
    """(stage, in_text_window): pipeline stage of the innermost library frame
    and whether the raise happened while markup.parse() had `text` removed"""
    frames = lib_frames(tb)
    stage = 'outside'
    for rel, _name in reversed(frames):
        hit = None
        if rel in ('scanner.py', 'scanner_utils.py', 'token_scanner.py', 'list_utils.py', 'output_stream.py'):
            continue
        for pat, st in STAGE_RULES:
            if rel.startswith(pat):
                hit = st
                break
        if hit:
            stage = hit
            break
    window = False
    for i, (rel, name) in enumerate(frames[:-1]):
        if rel == 'markup/__init__.py' and name == 'parse':
            nxt = frames[i + 1]
            if nxt[0] in ('markup/snippets.py', 'markup/utils.py'):
                window = True
    return stage, window


# ---------------------------------------------------------------------------
# live host objects

class Handle:
    __slots__ = ('cid', 'spec', 'user', 'peer', 'instance', 'raised_before', 'calls', 'poked', 'last_error')

    def __init__(self, cid, spec):
        self.cid = cid
        self.spec = spec
        self.user = None
        self.peer = None
        self.instance = None
        self.raised_before = False
        self.calls = 0
        self.poked = None
        # the host keeps the exception object of the last failed call (a status line, a log record):
        # cleanup that only happens when the traceback is released has not happened yet when the next
        # call is made (seeded change Y93-m1 restored `text` in the `finally:` of a suspended generator)
        self.last_error = None


def newline_of(spec, glob):
    "Best-effort view of the newline string in force (only used to protect it in the peer)"
    out = ['\n']
    v = (spec.get('options') or {}).get('output.newline')
    if isinstance(v, str):
        out.append(v)
    for layer in (glob or {}).values():
        v = ((layer or {}).get('options') or {}).get('output.newline')
        if isinstance(v, str):
            out.append(v)
    return out


GPEER_MARKS = ('@@gpeer.field', '@@gpeer.text')


class Host:
    def __init__(self, world=None):
        world = world or {}
        self.emmet = sys.modules['emmet']
        self.Config = sys.modules['emmet.config'].Config
        self.caches = {cid: {} for cid in (world.get('caches') or [])}
        # the host's own callback object for options it sets in its GLOBAL config (a JSON world writes
        # them as the marker strings '@@gpeer.field' / '@@gpeer.text')
        self.gpeer = Peer({'seed': 77, 'style': 'upper'})
        # a host that keeps its settings read-only: the options / snippets / variables sections of every layer it
        # hands to the library are types.MappingProxyType views (any Mapping is a legal section; seeded change
        # Z06-m3 merged only sections that pass isinstance(x, dict))
        self.frozen = bool(world.get('frozen'))
        self.globals = {gid: self.live_layer(jcopy(layer)) for gid, layer in (world.get('globals') or {}).items()}
        self.cfgs = {}
        for cid, spec in (world.get('configs') or {}).items():
            self.add_config(cid, jcopy(spec))

    # -- construction ---------------------------------------------------------
    def freeze_sections(self, d):
        import types
        if self.frozen and isinstance(d, dict):
            for k in SECTIONS:
                if isinstance(d.get(k), dict):
                    d[k] = types.MappingProxyType(d[k])
        return d

    def live_layer(self, layer):
        "Replaces the callback markers of a global config by the bound methods of the host's callback object"
        if isinstance(layer, dict):
            for sec in layer.values():
                self.freeze_sections(sec)
        if isinstance(layer, dict):
            for sec in layer.values():
                opts = sec.get('options') if isinstance(sec, dict) else None
                if isinstance(opts, dict) and not self.frozen:
                    for k, v in list(opts.items()):
                        if v == '@@gpeer.field':
                            opts[k] = self.gpeer.field
                        elif v == '@@gpeer.text':
                            opts[k] = self.gpeer.text
        return layer

    def build_user(self, spec, cache_obj):
        user = {}
        for k in ('type', 'syntax', 'text', 'context', 'maxRepeat'):
            if k in spec:
                user[k] = jcopy(spec[k])
        for k in SECTIONS:
            if k in spec:
                user[k] = jcopy(spec[k])
        if cache_obj is not None:
            user['cache'] = cache_obj
        return user

    def add_config(self, cid, spec, user=None):
        h = Handle(cid, spec)
        if spec.get('holder') != 'none':
            cache_obj = self.caches.get(spec.get('cache')) if spec.get('cache') is not None else None
            if spec.get('cache') is not None and cache_obj is None:
                raise HarnessError('unknown cache %r' % spec.get('cache'))
            h.user = user if user is not None else self.build_user(spec, cache_obj)
            if spec.get('peer'):
                h.peer = Peer(spec['peer'])
                opts = h.user.get('options')
                if opts is None:
                    opts = h.user['options'] = {}
                opts['output.field'] = h.peer.field
                opts['output.text'] = h.peer.text
            self.freeze_sections(h.user)
            if spec.get('holder') == 'Config':
                h.instance = self.make_config(h.user, self.global_of(spec))
        self.cfgs[cid] = h
        return h

    def make_config(self, user, glob):
        return self.Config(user, glob) if glob is not None else self.Config(user)

    def global_of(self, spec):
        g = spec.get('global')
        return self.globals[g] if g is not None else None

    # -- host ops -------------------------------------------------------------
    def apply_host_op(self, op):
        kind = op['op']
        if kind == 'clear_cache':
            self.caches[op['cache']].clear()
        elif kind == 'set_global':
            g = self.globals[op['global']]
            g.clear()
            g.update(self.live_layer(jcopy(op['layer'])))
        elif kind == 'edit_cfg':
            h = self.cfgs[op['cfg']]
            path = op['path']
            if len(path) == 1:
                if op.get('delete'):
                    h.user.pop(path[0], None)
                    h.spec.pop(path[0], None)
                else:
                    h.user[path[0]] = jcopy(op['value'])
                    h.spec[path[0]] = jcopy(op['value'])
            else:
                sec_name, key = path
                sec = h.user.get(sec_name)
                inplace = bool(op.get('inplace')) and not h.spec.get('shared') and sec is not None and not self.frozen
                if not inplace:
                    sec = dict(sec) if sec is not None else {}
                    h.user[sec_name] = sec
                spec_sec = h.spec.get(sec_name)
                if spec_sec is None:
                    spec_sec = h.spec[sec_name] = {}
                if op.get('delete'):
                    sec.pop(key, None)
                    spec_sec.pop(key, None)
                else:
                    old = sec.get(key)
                    new = jcopy(op['value'])
                    if op.get('deep') and inplace and isinstance(old, list) and isinstance(new, list):
                        # the host changes the CONTENTS of the list it keeps in its settings (append / remove):
                        # the same list object, seen again by the next call (seeded change Z06-m1 memoised
                        # membership tests by id(list))
                        old[:] = new
                    elif op.get('deep') and inplace and isinstance(old, dict) and isinstance(new, dict):
                        old.clear()
                        old.update(new)
                    else:
                        sec[key] = new
                    spec_sec[key] = jcopy(op['value'])
                self.freeze_sections(h.user)
            if h.spec.get('holder') == 'Config':
                # host discipline: rebuild a held Config whenever its dict is edited
                h.instance = self.make_config(h.user, self.global_of(h.spec))
        elif kind == 'clone_cfg':
            src = self.cfgs[op['src']]
            spec = jcopy(src.spec)
            spec['id'] = op['dst']
            if op.get('depth') == 'deep':
                try:
                    user = copy.deepcopy(src.user)
                except Exception:  # noqa -- the library put something into the cache that cannot be copied:
                    # this host then copies its own settings and starts the copy with an empty cache
                    user = copy.deepcopy(dict((k, v) for k, v in src.user.items() if k != 'cache'))
                    if 'cache' in src.user:
                        user['cache'] = {}
                if spec.get('cache') is not None:
                    new_cache = '%s~%s' % (spec['cache'], op['dst'])
                    self.caches[new_cache] = user['cache']
                    spec['cache'] = new_cache
                # a deep copy gets its own editor callbacks
                if spec.get('peer'):
                    user.get('options', {}).pop('output.field', None)
                    user.get('options', {}).pop('output.text', None)
            else:
                user = dict(src.user)
                src.spec['shared'] = True
                spec['shared'] = True
                if spec.get('peer'):
                    # own options dict for the own pair of callbacks
                    user['options'] = dict(user.get('options') or {})
            self.add_config(op['dst'], spec, user)
        elif kind == 'rebuild_cfg':
            h = self.cfgs[op['cfg']]
            h.instance = self.make_config(h.user, self.global_of(h.spec))
        elif kind == 'poke_cfg':
            # the host assigns into ITS resolved Config (top-level keys of .options/.snippets/
            # .variables), as the repository's own tests do; from now on calls on this very
            # Config have no defined reference (until it is rebuilt), calls on others do
            h = self.cfgs[op['cfg']]
            if h.instance is not None:
                target = getattr(h.instance, op['section'], None)
                if isinstance(target, dict):
                    target[op['key']] = jcopy(op['value'])
                h.poked = h.instance
        else:
            raise HarnessError('unknown host op %r' % kind)

    # -- calls ------------------------------------------------------------------
    def call(self, op, fault=None, tracer=None):
        """Executes one call op. Returns (outcome, info).
        outcome: ['ok', str] | ['raise', cls, msg, pos] | ['fault', kind]
        """
        h = self.cfgs[op['cfg']]
        entry = op.get('entry', 'expand')
        abbr = op['abbr']
        emmet = self.emmet
        info = {'fired': False, 'stage': None, 'window': False, 'peer_n': 0, 'entries': None}
        holder = h.spec.get('holder')
        glob = self.global_of(h.spec)

        fail_at = None
        fail_exc = None
        if fault and fault['kind'] == 'F3':
            fail_at = fault.get('k')
            fail_exc = fault.get('exc')
        self.gpeer.begin()
        if h.peer is not None:
            h.peer.begin(fail_at, fail_exc)
            h.peer.protect = tuple(newline_of(h.spec, glob))
            # (assumption A2, relaxed where it can be: only when the newline string and an EMPTY baseIndent
            # are both set in the user layer is the library's newline chunk known to be the bare newline)
            uo = h.spec.get('options') or {}
            nl_u = uo.get('output.newline')
            h.peer.inside = nl_u if (isinstance(nl_u, str) and nl_u and uo.get('output.baseIndent') == '') else None

        if holder == 'none':
            if glob is not None:
                thunk = lambda: emmet.expand(abbr, global_config=glob)
            else:
                thunk = lambda: emmet.expand(abbr)
        elif entry == 'expand':
            if holder == 'Config':
                inst = h.instance
                if op.get('pass_global') and glob is not None:
                    # a host that passes its (current) global config to every call; documented to be
                    # ignored when the call config is a ready Config
                    thunk = lambda: emmet.expand(abbr, inst, glob)
                else:
                    thunk = lambda: emmet.expand(abbr, inst)
            elif glob is not None:
                thunk = lambda: emmet.expand(abbr, h.user, glob)
            else:
                thunk = lambda: emmet.expand(abbr, h.user)
        else:
            fn = getattr(emmet, entry)
            if holder == 'Config':
                inst = h.instance
                thunk = lambda: fn(abbr, inst)
            elif glob is not None:
                thunk = lambda: fn(abbr, self.Config(h.user, glob))
            else:
                thunk = lambda: fn(abbr, self.Config(h.user))

        random.seed(op.get('pin', 0))
        old_limit = None
        if fault and fault['kind'] == 'F4':
            old_limit = sys.getrecursionlimit()
            sys.setrecursionlimit(frame_depth() + 2 + max(4, int(fault.get('budget', 50))))
        if fault and fault['kind'] == 'F5':
            if fault.get('mode') == 'func':
                tracer = EntryTracer('func', func=fault.get('func'), k=fault.get('k'), exc=fault.get('exc'))
            else:
                tracer = EntryTracer('nth', n=fault.get('n'), exc=fault.get('exc'))
        h.calls += 1
        try:
            if tracer is not None:
                sys.settrace(tracer)
            try:
                result = thunk()
            finally:
                if tracer is not None:
                    sys.settrace(None)
                if old_limit is not None:
                    sys.setrecursionlimit(old_limit)
            if not isinstance(result, str):
                outcome = ['ok-nonstr', repr(result)[:500]]
            else:
                outcome = ['ok', result]
        except PeerFault as err:
            h.last_error = err
            info['fired'] = True
            info['stage'], info['window'] = classify_traceback(err.__traceback__)
            outcome = ['fault', 'F3']
        except (InjectedFault, InjectedInterrupt) as err:
            h.last_error = err
            info['fired'] = True
            info['stage'], info['window'] = classify_traceback(err.__traceback__)
            info['where'] = list(tracer.where) if tracer is not None and tracer.where else None
            outcome = ['fault', 'F5']
        except RecursionError as err:
            h.last_error = err
            info['stage'], info['window'] = classify_traceback(err.__traceback__)
            if old_limit is not None:
                info['fired'] = True
                outcome = ['fault', 'F4']
            else:
                outcome = describe_exception(err)
        except Exception as err:  # noqa -- the library may raise anything
            h.last_error = err
            info['stage'], info['window'] = classify_traceback(err.__traceback__)
            outcome = describe_exception(err)
            if fault and fault['kind'] in ('F3', 'F5'):
                fired = (h.peer.fired if (fault['kind'] == 'F3' and h.peer is not None) else
                         (tracer.fired if tracer is not None else False))
                if fired:
                    # the library turned the injected failure into another exception
                    info['fired'] = True
                    outcome = ['fault', fault['kind'] + '-converted']
        else:
            if fault and fault['kind'] in ('F3', 'F5'):
                fired = (h.peer.fired if (fault['kind'] == 'F3' and h.peer is not None) else
                         (tracer.fired if tracer is not None else False))
                if fired:
                    # the library swallowed the injected failure: not comparable
                    info['fired'] = True
                    outcome = ['fault', fault['kind'] + '-swallowed']
        if outcome[0] != 'ok':
            h.raised_before = True
        if h.peer is not None:
            info['peer_n'] = h.peer.n
            # what the editor saw during this call (arguments, positions, answers)
            info['peer_view'] = sha(canon(h.peer.log))[:16]
        if tracer is not None:
            info['entries'] = tracer.total
            if tracer.mode == 'count':
                info['counts'] = tracer.counts
        return outcome, info


# ---------------------------------------------------------------------------
# the reference: one call, pristine interpreter (executed in a forked child)

def reference_call(callspec, want_entries=False):
    spec = jcopy(callspec['cfg'])
    spec['id'] = 'ref'
    world = {'configs': {}, 'caches': [], 'globals': {}}
    if callspec.get('glob') is not None:
        world['globals']['g'] = callspec['glob']
        spec['global'] = 'g'
    if callspec.get('cache') == 'fresh':
        world['caches'].append('k')
        spec['cache'] = 'k'
    world['configs']['ref'] = spec
    host = Host(world)
    op = {'op': 'call', 'cfg': 'ref', 'abbr': callspec['abbr'], 'entry': callspec.get('entry', 'expand'),
          'pin': callspec.get('pin', 0)}
    tracer = EntryTracer('count') if want_entries else None
    outcome, info = host.call(op, tracer=tracer)
    out = {'outcome': outcome, 'peer_n': info['peer_n'], 'peer_view': info.get('peer_view')}
    if want_entries:
        out['entries'] = info['entries']
        out['counts'] = info.get('counts') or {}
    return out
