"""Reach measure: which lines and functions of the library the simulated runs execute.

`sys.monitoring` (3.12) LINE events, each location disabled after its first hit, so
the cost per run child is one callback per *distinct* line executed. Independent of
`sys.settrace`, which the F5 fault uses. Never part of a run digest; never an oracle.
Switched off with VERIF_LIBCOV=0.

Universe = lines of *function* code objects (module-level statements run at import
time in the zygote, before any run child exists), without the `def` line.
"""
import os
import sys

from . import lib

ENABLED = os.environ.get('VERIF_LIBCOV', '1') != '0' and hasattr(sys, 'monitoring')

_hits = None


def start():
    "In a run child: start recording; returns nothing"
    global _hits
    if not ENABLED:
        return
    mon = sys.monitoring
    prefix = lib.lib_prefix()
    n = len(prefix)
    hits = set()

    def on_line(code, line):
        fn = code.co_filename
        if fn.startswith(prefix):
            hits.add((fn[n:], line))
        return mon.DISABLE

    try:
        mon.use_tool_id(mon.COVERAGE_ID, 'verif-libcov')
    except ValueError:
        return
    mon.register_callback(mon.COVERAGE_ID, mon.events.LINE, on_line)
    mon.set_events(mon.COVERAGE_ID, mon.events.LINE)
    _hits = hits


def stop():
    "-> sorted list of [relative file, line] executed since start()"
    global _hits
    if _hits is None:
        return []
    mon = sys.monitoring
    mon.set_events(mon.COVERAGE_ID, 0)
    mon.register_callback(mon.COVERAGE_ID, mon.events.LINE, None)
    mon.free_tool_id(mon.COVERAGE_ID)
    out = sorted(_hits)
    _hits = None
    return [list(x) for x in out]


_universe = None


def universe():
    """relative file -> {qualified function name: sorted executable lines}"""
    global _universe
    if _universe is not None:
        return _universe
    root = os.path.join(lib.REPO, 'emmet')
    out = {}
    for dirpath, dirnames, filenames in sorted(os.walk(root)):
        dirnames.sort()
        if '__pycache__' in dirpath:
            continue
        for fn in sorted(filenames):
            if not fn.endswith('.py'):
                continue
            path = os.path.join(dirpath, fn)
            try:
                with open(path, 'rb') as fh:
                    top = compile(fh.read(), path, 'exec', dont_inherit=True)
            except (SyntaxError, ValueError, OSError):
                continue
            funcs = {}

            def walk(code, qual):
                for c in code.co_consts:
                    if hasattr(c, 'co_code'):
                        q = (qual + '.' if qual else '') + c.co_name
                        lines = set(l for _s, _e, l in c.co_lines() if l is not None)
                        is_class = c.co_name != '<lambda>' and _is_class_body(c)
                        if not is_class:
                            body = set(lines)
                            if len(body) > 1:
                                body.discard(c.co_firstlineno)
                            key = '%s@%d' % (q, c.co_firstlineno)
                            funcs[key] = sorted(body)
                        walk(c, q)

            walk(top, '')
            if funcs:
                out[os.path.relpath(path, root)] = funcs
    _universe = out
    return out


def _is_class_body(code):
    # a class body stores __module__/__qualname__ first; it runs at import time
    return '__qualname__' in code.co_names and '__module__' in code.co_names


OUT_OF_SCOPE = ('action_utils/', 'css_matcher/', 'html_matcher/', 'extract_abbreviation/', 'math_expression/',
                'scanner_utils.py', 'snippets/__init__.py')


def report(hit_pairs, max_list=80):
    "hit_pairs: iterable of (relfile, line) -> summary dict for the evidence file"
    uni = universe()
    in_scope = lambda f: not f.startswith(OUT_OF_SCOPE)
    stot = scov = 0
    missed = {}
    hit = {}
    for f, l in hit_pairs:
        hit.setdefault(f, set()).add(l)
    tot = cov = 0
    ftot = fcov = 0
    per_file = {}
    never = []
    for f in sorted(uni):
        h = hit.get(f, set())
        t = c = 0
        for key in sorted(uni[f]):
            lines = uni[f][key]
            if not lines:
                continue
            got = sum(1 for l in lines if l in h)
            t += len(lines)
            c += got
            ftot += 1
            if got:
                fcov += 1
            elif in_scope(f):
                never.append('%s:%s' % (f, key))
            if in_scope(f):
                m = [l for l in lines if l not in h]
                if m:
                    missed.setdefault(f, []).extend(m)
        if in_scope(f):
            stot += t
            scov += c
        tot += t
        cov += c
        per_file[f] = '%d/%d' % (c, t)
    return {
        'what': 'lines / functions of emmet/*.py (function bodies; module-level code runs at import) executed by the run '
                'children of this batch, recorded with sys.monitoring; a reach measure, not an oracle',
        'lines_executed': cov, 'lines_total': tot, 'line_pct': round(100.0 * cov / max(tot, 1), 1),
        'expansion_pipeline': {
            'what': 'the modules emmet.expand() can reach (everything except %s, which only properties listed as '
                    'not applicable talk about)' % ', '.join(OUT_OF_SCOPE),
            'lines_executed': scov, 'lines_total': stot, 'line_pct': round(100.0 * scov / max(stot, 1), 1),
            'lines_missed': dict((f, sorted(v)) for f, v in sorted(missed.items())),
        },
        'functions_entered': fcov, 'functions_total': ftot,
        'per_file': per_file,
        'functions_never_entered_in_pipeline': never[:max_list],
        'functions_never_entered_in_pipeline_count': len(never),
    }
