"""Minimisation of a failing history (delta debugging over ops, objects, specs,
abbreviations and faults). Every candidate is executed in a fresh run child
against freshly derived references; a candidate counts only if it is a valid
history (assumption A1) and shows a violation with the same key."""
from .forkpool import ChildError
from .hostmodel import is_valid, CALL_KINDS
from .util import jcopy, canon


def vkey(v):
    "Violation class used for grouping, minimisation and replay verification"
    parts = v['subkind'].split(':')
    if v['oracle'] == 'leak' and parts[0].startswith('unbounded-'):
        return (v['property'], v['oracle'], 'unbounded')
    return (v['property'], v['oracle'], ':'.join(parts[:2]) if v['oracle'] == 'result' else parts[0])
    # e.g. ('C08', 'result', 'history-changes-result:markup'), ('C08', 'result', 'history-changes-callback-view:markup'),
    #      ('C08', 'leak', 'containers'), ('C13', 'editor-view', 'line')


def vkey_str(key):
    return '%s/%s/%s' % tuple(key)


class Minimiser:
    def __init__(self, simulate, props, key, budget=500, validator=None):
        self.simulate = simulate
        self.props = props
        self.key = tuple(key)
        self.budget = budget
        self.tried = 0
        self.seen = {}
        self.validator = validator or (lambda hist: is_valid(hist['world'], hist['ops']))

    def fails(self, hist):
        "True iff the candidate is valid and reproduces the violation class"
        k = canon([hist['world'], hist['ops']])
        if k in self.seen:
            return self.seen[k]
        if self.tried >= self.budget:
            return False
        ok = False
        if self.validator(hist):
            self.tried += 1
            try:
                res = self.simulate(hist, self.props)
                ok = any(vkey(v) == self.key for v in res['violations'])
            except ChildError:
                ok = False
            except Exception:  # noqa -- invalid candidate (e.g. dangling reference)
                ok = False
        self.seen[k] = ok
        return ok

    # -- passes ---------------------------------------------------------------------
    def ddmin_ops(self, hist):
        ops = hist['ops']
        n = 2
        while len(ops) >= 2:
            chunk = max(1, len(ops) // n)
            reduced = False
            i = 0
            while i < len(ops):
                cand_ops = ops[:i] + ops[i + chunk:]
                cand = dict(hist, ops=cand_ops)
                if cand_ops and self.fails(cand):
                    ops = cand_ops
                    hist = cand
                    reduced = True
                    n = max(n - 1, 2)
                else:
                    i += chunk
            if not reduced:
                if chunk == 1:
                    break
                n = min(len(ops), n * 2)
        return hist

    def prune_world(self, hist):
        world = jcopy(hist['world'])
        used_cfg = set()
        for op in hist['ops']:
            for k in ('cfg', 'src', 'dst'):
                if k in op:
                    used_cfg.add(op[k])
        for cid in list(world['configs']):
            if cid not in used_cfg:
                cand_world = jcopy(world)
                del cand_world['configs'][cid]
                cand = dict(hist, world=cand_world)
                if self.fails(cand):
                    world = cand_world
        used_cache = set(s.get('cache') for s in world['configs'].values())
        used_glob = set(s.get('global') for s in world['configs'].values())
        for op in hist['ops']:
            if op['op'] == 'clear_cache':
                used_cache.add(op['cache'])
            if op['op'] == 'set_global':
                used_glob.add(op['global'])
        cand_world = jcopy(world)
        cand_world['caches'] = [c for c in world['caches'] if c in used_cache]
        cand_world['globals'] = {g: v for g, v in world['globals'].items() if g in used_glob}
        cand = dict(hist, world=cand_world)
        if canon(cand_world) != canon(world) and self.fails(cand):
            world = cand_world
        return dict(hist, world=world)

    def simplify_specs(self, hist):
        changed = True
        while changed:
            changed = False
            world = hist['world']
            for cid in sorted(world['configs']):
                spec = world['configs'][cid]
                # drop whole keys
                for key in ('peer', 'context', 'maxRepeat', 'variables', 'global', 'options', 'snippets', 'text', 'cache', 'syntax'):
                    if key in spec:
                        cw = jcopy(world)
                        del cw['configs'][cid][key]
                        cand = dict(hist, world=cw)
                        if self.fails(cand):
                            hist = cand
                            world = cw
                            spec = world['configs'][cid]
                            changed = True
                # holder Config -> dict
                if spec.get('holder') == 'Config':
                    cw = jcopy(world)
                    cw['configs'][cid]['holder'] = 'dict'
                    cand = dict(hist, world=cw, ops=[o for o in hist['ops'] if not (o['op'] == 'rebuild_cfg' and o['cfg'] == cid)])
                    if self.fails(cand):
                        hist = cand
                        world = cw
                        spec = world['configs'][cid]
                        changed = True
                # drop entries inside sections
                for sec in ('options', 'snippets', 'variables'):
                    for k in sorted(spec.get(sec) or {}):
                        cw = jcopy(world)
                        del cw['configs'][cid][sec][k]
                        cand = dict(hist, world=cw)
                        if self.fails(cand):
                            hist = cand
                            world = cw
                            spec = world['configs'][cid]
                            changed = True
                # shorten text
                t = spec.get('text')
                if isinstance(t, list) and len(t) > 1:
                    for i in range(len(t)):
                        cw = jcopy(world)
                        cw['configs'][cid]['text'] = t[:i] + t[i + 1:]
                        cand = dict(hist, world=cw)
                        if self.fails(cand):
                            hist = cand
                            world = cw
                            changed = True
                            break
                if spec.get('peer') and spec['peer'].get('style') != 'identity':
                    cw = jcopy(world)
                    cw['configs'][cid]['peer'] = {'seed': 0, 'style': 'identity'}
                    cand = dict(hist, world=cw)
                    if self.fails(cand):
                        hist = cand
                        world = cw
                        changed = True
            # configs sharing a cache must keep equal snippet tables (A1): drop entries from all of them at once
            by_cache = {}
            for cid in sorted(world['configs']):
                c = world['configs'][cid].get('cache')
                if c is not None:
                    by_cache.setdefault(c, []).append(cid)
            for c, cids in sorted(by_cache.items()):
                if len(cids) < 2:
                    continue
                keys = set()
                for cid in cids:
                    keys.update((world['configs'][cid].get('snippets') or {}).keys())
                for k in sorted(keys):
                    cw = jcopy(world)
                    for cid in cids:
                        (cw['configs'][cid].get('snippets') or {}).pop(k, None)
                    cand = dict(hist, world=cw)
                    if self.fails(cand):
                        hist = cand
                        world = cw
                        changed = True
            for gid in sorted(world['globals']):
                for part in sorted(world['globals'][gid]):
                    cw = jcopy(world)
                    del cw['globals'][gid][part]
                    cand = dict(hist, world=cw)
                    if self.fails(cand):
                        hist = cand
                        world = cw
                        changed = True
        return hist

    def simplify_ops(self, hist):
        changed = True
        while changed:
            changed = False
            for i, op in enumerate(hist['ops']):
                cands = []
                if op['op'] == 'repeat3':
                    cands.append(dict(op, op='call'))
                if 'fault' in op:
                    o = dict(op)
                    del o['fault']
                    cands.append(o)
                    f = op['fault']
                    if f.get('exc'):
                        f2 = dict(f)
                        del f2['exc']
                        cands.append(dict(op, fault=f2))
                    if f['kind'] == 'F5' and f.get('mode') == 'func':
                        cands.append(dict(op, fault=dict(f, mode='nth')))
                if 'entry' in op:
                    o = dict(op)
                    del o['entry']
                    cands.append(o)
                if op.get('pin'):
                    cands.append(dict(op, pin=0))
                for k in ('tags', 'nat', 'closing'):
                    if k in op:
                        o = dict(op)
                        del o[k]
                        cands.append(o)
                meta_mode = (op.get('c13') or {}).get('mode', 'positions')
                if op['op'] in CALL_KINDS and meta_mode == 'positions' and 'c20' not in op:
                    # (an abbreviation that carries generator meta data is not shrunk as text:
                    # the meta data describes the tree it was printed from)
                    abbr = op['abbr']
                    n = len(abbr)
                    size = max(1, n // 2)
                    while size >= 1 and n > 1:
                        for start in range(0, n, size):
                            short = abbr[:start] + abbr[start + size:]
                            if short and short != abbr:
                                cands.append(dict(op, abbr=short))
                        size //= 2
                for c in cands:
                    if canon(c) == canon(op):
                        continue
                    cand = dict(hist, ops=hist['ops'][:i] + [c] + hist['ops'][i + 1:])
                    if self.fails(cand):
                        hist = cand
                        changed = True
                        break
                if changed:
                    break
        return hist

    def run(self, hist):
        hist = {'world': jcopy(hist['world']), 'ops': jcopy(hist['ops'])}
        if not self.fails(hist):
            return None
        for _ in range(3):
            before = canon([hist['world'], hist['ops']])
            hist = self.ddmin_ops(hist)
            hist = self.prune_world(hist)
            hist = self.simplify_specs(hist)
            hist = self.simplify_ops(hist)
            if canon([hist['world'], hist['ops']]) == before:
                break
        return hist
