"""Abbreviation generators (workload items).

For C08 the oracle is the library itself in a pristine state, so *any* string
is a valid workload item and no semantics of abbreviations is modelled here:
a curated corpus, a grammar-based generator and mutations (fault kind F1).
The C13 generator additionally keeps the explicit tree it printed, so that
tabstop counts come from the tree and not from a re-parse of the string.
"""

# ---------------------------------------------------------------------------
# curated corpus (README, test-suite shapes, per-feature probes)

MARKUP_CORPUS = [
    'div', 'ul>li*3', 'ul>.item$*2', 'ul>li.item$@-*5', 'input[value="text$"]*2', 'textarea',
    'a.test', 'a', 'img', 'link:css', 'meta:vp', '!', 'html:5', 'doc', 'btn', 'inp', 'select>option*2',
    'table>.row*2>.cell*2', 'p>{Click }+a{here}+{ to continue}', 'span{{foo}}', 'span{foo}',
    'span[foo={bar}]', 'div#foo.bar', 'label[for=a]', 'label>input', 'label>textarea', 'Foo.Bar',
    'div.{theme.style}', '.bar', '..bar', '..foo-bar', 'div.foo/', 'div.foo1/2', 'div.foo.1/2',
    '[charset=${charset}]{${charset}}', 'ul>li*', 'ul>.item$*', 'img[src="$#"]*', 'div>ul', 'p', 'a[href=]',
    'ul>li{item $}*3', 'div>p>span', 'div+p+bq', 'div>p^span', '(div>p)+span', '(header>ul>li*2>a)+footer>p',
    'div>(header>ul>li*2>a)+footer>p', 'p>em*3', 'a>b>i', 'p>a+b+i+u+span+strong', 'div>{text}+span',
    'div[title=${1:t}]{${2:body}}', '{${1:a} ${2:b}}', 'div{${0}}', 'ul>li[title]*2>a[href]',
    'xsl:variable[name=a select=b]>div', 'xsl:with-param[name=a select=b]{x}', 'tm', 'choose', 'ap',
    'lorem', 'lorem5', 'p*2>lorem4', 'ul>lorem3*2', 'loremru4', 'lorem2-5', 'ol>li*2>lorem2',
    'div.b>div.-e_m', 'div.b>.-e>.--x', '.b_m>.-e', 'div.block>.-el1+.-el2_mod', '.b__e_m', '.b>.-e>.-f_m',
    '.a-b>.-c', 'div.b_m1._m2', 'ul.nav>.-item*2>a.-link', '.b>._m', 'form.search>input.-query+btn.-go',
    'cc:ie', 'script:src', 'a:mail', 'pic+', 'ul+', 'ol+', 'dl+', 'table+', 'form:get', 'input:email',
    'button:s', 'fig', 'fst', 'optg+', 'tr+', 'ifr', 'emb', 'ri:d', 'ri:a', 'svg', 'area:c', 'audio', 'vid',
    'div*2>p*2>span.c$$@3', 'ul>li.i$@^*2', '(a+b)*2', '(.x>.y)*2+.z', 'div>(p+span)*2^em',
    'h$[title=item$]{Header $}*3', 'div[a.][!b][c=d]', "div[a='b c' d=\"e\"]", 'input[disabled.]', 'input[!hidden.]',
    'td[colspan=2 title]', 'p{a\nb}', 'div>{${1:one}\n${2:two}}', 'ul>li*2>{x$}', 'section>p+p^^^aside',
    '$', 'a$b', 'div$*3', 'ui:x', 'my-tag>my-item*2', 'a{b}>c{d}', 'div[]', 'div[ ]', "div['a' \"b\"]",
    'bq>p', 'str+em', 'p>span*4', 'div>span+em+strong+a', 'mn', 'hdr', 'ftr', 'adr', 'dlg', 'ol>li[data-i=$]*2',
    'ul>li*6', 'div*4>p*3', '(a+b)*5', 'html[lang=${lang}]>head>meta[charset=${charset}]', 'p{${lang}-${locale}}',
    'label>input[type=checkbox]', 'select>option[value=$]*3', 'input[type=radio checked.]', 'video>source+track',
    'xsl:when[test]>xsl:variable[name=a select=b]{x}', 'wp[name=a select=b]>div',
]

STYLESHEET_CORPUS = [
    'm10', 'p10-20', 'm0-auto', 'p10+m20', 'bd1-s#fc0', 'c#f', 'c#fc0', 'c#0.5', 'bgc#f00.3', 'w100p', 'h10e',
    'fz1.5', 'lh1.5', 'lh2', 'op.5', 'op1', 'z10', 'zom', 'zom2', 'fw', 'fw7', 'animic', 'ord2', 'fx1', 'fxg2', 'fxsh0',
    'd', 'dib', 'dn', 'pos', 'posa', 'poa', 'posr', 'fl', 'fll', 'cl', 'clb', 'ov', 'ovh', 'ova', 'cur', 'curp',
    'bd', 'bdt', 'bdb1', 'bg', 'bgc', 'bgi', 'bgp', 'bgr', 'bgrn', 'c', 'f', 'ff', 'ffa', 'fs', 'fsi', 'fw', 'fwb',
    'ta', 'tac', 'tal', 'td', 'tdn', 'tdu', 'tt', 'ttu', 'ti', 'va', 'vam', 'whs', 'whsnw', 'trf', 'trfr', 'trs', 'anim',
    'bxsh', 'bxsz', 'bxzbb', 'mt10', 'mr-10', 'mb10p', 'ml1.5r', 'pt0', 'pr10x', 'w', 'wa', 'h', 'ha', 'maw100', 'mih0',
    't0', 'r0', 'b0', 'l0', 't10+l10', 'm10!', 'p!', 'lg', 'lg(to right, #0, #f00.5)', 'bgi-lg(#f00, #00f)',
    '@kf', '@m', '@f', '@i', '@ff', 'gt', 'gtc', 'gtcr', 'gg10', 'jc', 'jcc', 'ai', 'aic', 'as', 'ac',
    'bdrs4', 'bdw1-2-3-4', 'm10-20-30-40', 'p1.5e-2r', 'ol', 'oln', 'us', 'usn', 'cnt', 'cntoq', 'q', 'coi', 'cor',
    'foo', 'foo-bar', 'foo10', 'xyz', 'm$10', 'p${1:10}', 'c#', '#f', '10', 'm10p20', 'mten', 'trf:r', 'p:10',
    'kmar', 'klh', 'bg:ov', 'bd-q', 'm-al', 'bgmul', 'm-a', 'pa', 'm10e20', 'ov-h', 'pos-a', 'd-n', 'fl-r', 'scale(2)', 'trf-scale(1.5)', 'bgc-rgb(0,0,0)',
    'fz12', 'fz1e', 'fs-i', 'fst', 'lts.1', 'wos2', 'tsh', 'to', 'colm2', 'colmg10', 'wido2', 'orp3',
    'trf:scale(2)', 'trf-r(45)', 'trf:tx(10)', 'fna-sc(3)', 'fna:rotate(20)', 'gtx-r(3)', 'bgi-url(a.png)', 'animtf-cb(.2)',
    'cola', 'cola-#0', 'stra', 'kdis-b', 'kdis', 'gtx', 'c:r(0,0,0)', 'bxsh-n', 'bd-n', 'fl-r!', 'kmar!',
]

# shapes the library-reach measure showed no seeded run had executed: used by a scripted scenario of the C08 sweep
# (kept out of the corpora above so that the seeded histories stay the ones the seeded changes were evaluated on)
REACH_MARKUP = [
    'ul>li*2>p*2>{$^ $^^ $@- $@3^}', 'ul>li.a$@^^*2>p.b$^*3', 'div{a{b}c}', 'div{a{b', 'p[a={b{c}d}]', 'p[a={b{c]', 'a[b="c\\"d"]',
    'p{\\${1} \\$ $$}', 'div[a=b{c}]', 'div{}}', 'p[a="x]y" b=[z]]',
]
REACH_STYLESHEET = [
    'c#f.', 'c#fc0.', 'bgc#t', 'c#t.5', 'c#ffff', 'c#1234.5', 'p{a}', 'p{a{b}c}', 'p{a{b', "cnt'a{b}c'", 'cnt"a', 'fna', 'fna+gtx+stra',
    'lg(a(b(c)), d)', 'lg(a(b', 'm(1)', 'p(a,b)c', 'c#f00!', 'm-.5--1.5', 'm.5e-.5', 'bd1-s-#f.5',
]

NUMDEF_STYLESHEET = ['zom', 'kmar', 'klh', 'kwid', 'kmm', 'ktop', 'zidx', 'zom+kmar', 'kmar+klh', 'kwid+zom', 'kmm+ktop']

# user snippet tables that make cache taint observable (bare numeric defaults).
# NB keys must not contain digits: `k1` is parsed as property `k` with value 1.
STYLESHEET_USER_SNIPPETS = {
    'kmar': 'margin:10',
    'kpad': 'padding:${1:10}',
    'kdis': 'display:a|b',
    'klh': 'line-height:1.5',
    'kwid': 'width:10p',
    'kmm': 'margin:10 20',
    'ktop': 'top:1.5 2',
    'zidx': 'z-index:5',
    'rawa': 'foo ${1:bar} baz ${2}',
    'rawb': '@x ${1} {\n\t${2}\n}',
    'gtx': 'grid-template:${1:none}|repeat(${2:2}, ${3:1fr})',
    'fna': 'transform:scale(2)|rotate(10)',
    'cola': 'color:#f00|#0f0',
    'stra': "content:'x'|\"y\"",
    # longhands of stock shorthands with keywords of their own: a snippet object that
    # outlives the call would keep them attached to `background` / `border` / `margin`
    'bgbm': 'background-blend-mode:multiply|screen|overlay',
    'bdst': 'border-stroke:hairline|quirky',
    'mfoo': 'margin-foo:alpha|beta',
}
# a call with explicit function arguments / values followed by the same keyword with fewer or none:
# shows snippet objects (keyword functions, argument lists) that were edited in place by the first call
FOLLOW_UPS = {
    'trf-s(2)': ['trf-s', 'trf-s(3)'], 'trf-t(17.25, 2, 33.75)': ['trf-t(9)', 'trf-t'], 'trf-r(45)': ['trf-r', 'trf-r(1)'],
    'trf-sc3(1, 2, 3)': ['trf-sc3(9)', 'trf-sc3'], 'fna-sc(3)': ['fna-sc', 'fna'], 'fna-r(5)': ['fna-r'], 'gtx-r(3)': ['gtx-r', 'gtx'],
    'animtf-cb(.2)': ['animtf-cb', 'animtf-cb(.5, .6)'], 'bgi-url(a.png)': ['bgi'], 'cola-#0': ['cola'], 'kdis-b': ['kdis', 'kdis-a'],
    'cnt-attr(x)': ['cnt-attr', 'cnt'], 'gtc-r(2, 1fr)': ['gtc-r', 'gtc'],
}
# completion of a VALUE of a property (context = the property name): (abbreviations typed in that
# context, property-level probes that resolve keywords of the same property afterwards)
VALUE_CONTEXTS = {
    'font-family': (['s', 'a', 'v', 'ss', 'm', 'c'], ['ff:v+ff:a', 'ff-s', 'ffa', 'ffv', 'ff:ss', 'ff']),
    'background-image': (['l', 'u', 'n', 'lg(#f, #0)'], ['bgi', 'bgi:n', 'lg', 'bgi-l']),
    'position': (['a', 'r', 'f', 's'], ['pos:a', 'posr', 'pos']),
    'display': (['b', 'n', 'ib', 'f', 'g'], ['d:b', 'dib', 'dn', 'd']),
    'transform': (['s(2)', 'r(5)', 't(1, 2)', 'sc'], ['trf-s', 'trf:r', 'trf-t(9)', 'trf']),
    'border': (['1', 's', 'n', '1-s-#f'], ['bd-n', 'bd1-s', 'bd']),
    'font-weight': (['b', 'n', '7', 'br'], ['fw:b', 'fwb', 'fw7', 'fw']),
    'text-align': (['c', 'l', 'r', 'j'], ['ta:c', 'tac', 'ta']),
    'overflow': (['h', 'a', 's', 'v'], ['ov:h', 'ovh', 'ov']),
    'cursor': (['p', 'a', 'd'], ['cur:p', 'curp', 'cur']),
    'margin': (['a', '10', '0-a', '1.5'], ['m:a', 'm10', 'm0-auto', 'kmar']),
    'zoom': (['1', '2', 'n'], ['zom', 'zom2']),
    'content': (['n', 'oq', 'attr(x)'], ['cnt', 'cnt:n', 'cnt-attr']),
    'grid-template': (['n', 'r(2, 1fr)'], ['gt', 'gtx', 'gtx-r']),
}
SYNTAX_PROBES = {
    'pug': ['!', '!!!', 'html:5', 'doc', '!!!+p'], 'xsl': ['tm', 'choose', 'xsl', '!!!', 'ap', 'wp[name=a select=b]>div', 'vare'],
    'jsx': ['.a', '..a', 'label[for=x]', 'Foo.Bar', 'div.{x.y}'], 'vue': ['..a', '.a'], 'svelte': ['div.{x}', 'p[a={b}]'],
    'xml': ['br', 'img', 'hr+br'], 'xhtml': ['br', 'img'], 'slim': ['br', 'input[disabled.]'], 'haml': ['br', 'p{a\nb}'], 'js': ['.a'],
    'sass': ['m10', 'p5+m5'], 'stylus': ['m10', 'p5+m5'], 'scss': ['m10'], 'less': ['m10'], 'sss': ['m10'], 'css': ['m10'],
}
DEPENDENT_PROBES = ['bg:ov', 'bg-mul', 'bgmul', 'bd-q', 'bd:hair', 'm-al', 'm:beta', 'bg-scr+bd-q', 'bgov']
STYLESHEET_POISON_SNIPPETS = {
    'pxa': "margin:'abc",
    'pxb': 'margin:10 (',
    'pxc': 'margin:a(b',
}

MARKUP_USER_SNIPPETS = {
    'foo': '.foo[bar=baz]',
    'repeat': 'div>ul>li{Hello World}*3',
    'link': 'link[foo=bar href]/',
    'test': 'test[!foo bar. baz={}]',
    'fld': 'div[title=${1:t}]{${2:body}}',
    'grp': '(header>nav)+main+footer',
    'lor': 'p>lorem4',
    'cyc': 'cyc.x',
    'cya': 'cyb',
    'cyb': 'cya',
    'ali': 'foo',
    'txt': '{some text}',
    'rep': 'li.item$*2',
    'bemb': '.blk>.-el',
    'sc': 'thing[a b]/',
    'deep': 'a1>b1>c1>d1',
    'imp': '[data-x]',
}
MARKUP_POISON_SNIPPETS = {
    'bad1': 'a"',
    'bad2': 'a)',
    'bad3': 'a++',
    'bad4': "a[b='c]",
    'bad5': 'a[${1]',
    'bad6': 'div>(p',
    'bad7': 'x{${1:y}',
}

BAD_FRAGMENTS = ['"', ')', '++', "[b='c]", '[${1', '{${1:y', '(', '[', "'", '>>', '^(', '*0', '${', '[a=', '{', ']', '}', '\\', '$#', '$@-', '@', ',', ';', '%', ' ']

TAGS = ['div', 'p', 'span', 'ul', 'ol', 'li', 'a', 'em', 'strong', 'table', 'tr', 'td', 'section', 'header', 'footer',
        'nav', 'h1', 'h2', 'img', 'input', 'br', 'hr', 'label', 'select', 'option', 'form', 'button', 'textarea',
        'b', 'i', 'bq', 'btn', 'inp', 'link', 'meta', 'script', 'style', 'main', 'article', 'x-foo', 'ns:tag', 'Comp']
CLASSES = ['a', 'b', 'c', 'item', 'item$', 'row', 'cell', 'foo', 'bar', 'x-y', 'blk', '-el', '--sub', '_mod', '-el_mod',
           'b_m', 'b__e', 'b__e_m', 'n$$', 'foo-bar', '1/2', '-e', '_m', 'u-x', 'is-on']
ATTRS = ['title', 'href', 'src', 'alt', 'data-x', 'id', 'class', 'for', 'name', 'value', 'type', 'disabled', 'checked', 'select', 'x']
VALUES = ['v', 'v$', 'a b', '1', 'x-y', '${1:ph}', '${2}', '${lang}', '${charset}', 'http://x', '', '{e}', "it's", 'a-b', 'v$$@3']
TEXTS = ['text', 'item $', 'a ${1:b} c', 'Hello World', '${0}', '{x}', 'line1\nline2', '<b>t</b>', '  pad  ',
         '${1:one} and ${2:two}', '$$', 'é ü', 'a&b<c>', '${lang}', 'n $@-', 'x\ny ${1} z']


def pick(rng, seq):
    return seq[rng.randrange(len(seq))]


def maybe(rng, p):
    return rng.random() < p


# ---------------------------------------------------------------------------
# grammar-based markup generator (no semantics tracked)

def gen_element(rng, feat):
    out = []
    user = feat.get('user_snippets') or []
    r = rng.random()
    if r < 0.12:
        name = ''
    elif r < 0.22 and user:
        name = pick(rng, user)
    elif r < 0.27 and feat.get('lorem'):
        name = pick(rng, ['lorem', 'lorem3', 'lorem2-4', 'loremru3', 'loremsp2', 'lorem10'])
    else:
        name = pick(rng, TAGS)
    out.append(name)
    if maybe(rng, 0.15):
        out.append('#' + pick(rng, ['id', 'main', 'n$', 'x-1']))
    ncls = 0
    while maybe(rng, 0.45 if (feat.get('bem') or not name) else 0.3) and ncls < 3:
        cls = pick(rng, CLASSES)
        if not feat.get('bem') and cls[0] in '-_' and maybe(rng, 0.7):
            cls = 'c' + cls
        out.append('.' + cls)
        ncls += 1
    if maybe(rng, 0.25):
        attrs = []
        for _ in range(rng.randint(1, 3)):
            a = pick(rng, ATTRS)
            r = rng.random()
            if r < 0.3:
                attrs.append(a)
            elif r < 0.4:
                attrs.append(a + '.')
            elif r < 0.45:
                attrs.append('!' + a)
            else:
                v = pick(rng, VALUES)
                q = rng.random()
                if v.startswith('{'):
                    attrs.append('%s=%s' % (a, v))
                elif q < 0.4 and ' ' not in v and "'" not in v and v:
                    attrs.append('%s=%s' % (a, v))
                elif q < 0.7 and '"' not in v:
                    attrs.append('%s="%s"' % (a, v))
                elif "'" not in v:
                    attrs.append("%s='%s'" % (a, v))
                else:
                    attrs.append('%s="%s"' % (a, v))
        out.append('[' + ' '.join(attrs) + ']')
    if maybe(rng, 0.25):
        out.append('{' + pick(rng, TEXTS) + '}')
    s = ''.join(out)
    if not s:
        s = pick(rng, TAGS)
    if maybe(rng, 0.08):
        s += '/'
    r = rng.random()
    if r < 0.2:
        s += '*%d' % rng.randint(1, 4)
    elif r < 0.2 + (0.12 if feat.get('text') else 0.03):
        s += '*'
    return s


def gen_markup(rng, feat, depth=0, budget=None):
    "Random markup abbreviation; `feat` biases features (bem, lorem, text, user_snippets)"
    if budget is None:
        budget = [rng.randint(1, 9)]
    parts = []
    n = rng.randint(1, 3)
    for i in range(n):
        if budget[0] <= 0:
            break
        budget[0] -= 1
        if maybe(rng, 0.15) and depth < 3 and budget[0] > 0:
            inner = gen_markup(rng, feat, depth + 1, budget)
            s = '(' + inner + ')'
            if maybe(rng, 0.4):
                s += '*%d' % rng.randint(1, 3)
        else:
            s = gen_element(rng, feat)
            if maybe(rng, 0.5) and depth < 5 and budget[0] > 0:
                s += '>' + gen_markup(rng, feat, depth + 1, budget)
                if maybe(rng, 0.2) and budget[0] > 0:
                    budget[0] -= 1
                    s += '^' * rng.randint(1, 2) + gen_element(rng, feat)
        parts.append(s)
    return '+'.join(parts) if parts else gen_element(rng, feat)


def gen_deep_markup(rng, depth, feat=None):
    "Deeply nested abbreviation (workload for the resource-exhaustion fault F4)"
    names = ['div', 'p', 'span', 'ul', 'li', 'a', 'section']
    parts = []
    for i in range(depth):
        s = pick(rng, names)
        if feat and feat.get('bem') and i % 7 == 0:
            s += '.b%d' % i
        elif feat and feat.get('bem') and i % 7 == 3:
            s += '.-e'
        parts.append(s)
    return '>'.join(parts)


def gen_nested_groups(rng, depth):
    return '(' * depth + 'a>b' + ')' * depth


# ---------------------------------------------------------------------------
# stylesheet generator

CSS_NAMES = ['m', 'p', 'w', 'h', 'mt', 'mr', 'mb', 'ml', 'pt', 'pr', 'pb', 'pl', 't', 'r', 'b', 'l', 'fz', 'lh', 'op', 'z',
             'zom', 'fw', 'bd', 'bdrs', 'c', 'bgc', 'd', 'pos', 'fl', 'ov', 'ta', 'va', 'cur', 'trf', 'trs', 'bg', 'f',
             'bxsh', 'gt', 'jc', 'ai', 'fx', 'ord', 'colm', 'wos', 'lts', 'ti', 'maw', 'mih', 'tsh', 'olw', 'bdw',
             'foo', 'xq', 'margin', 'padding', 'poa', 'dib', 'tac', 'fwb', 'ovh', 'curp', 'animic', 'animdur']
CSS_UNITS = ['', '', '', 'p', 'e', 'x', 'r', 'px', 'em', '%', 'rem', 'vh', 'pt', 'deg', 's']
CSS_KEYWORDS = ['a', 'auto', 'n', 'none', 'i', 'inherit', 'b', 'bold', 's', 'solid', 'h', 'c', 'center', 'r', 'l', 'nw', 'bb', 'ib', 'u']
CSS_COLORS = ['#f', '#fc0', '#ff0000', '#0', '#1a2b3c', '#f.5', '#fc0.25', '#t', '#ab']


def gen_css_value(rng):
    r = rng.random()
    if r < 0.45:
        num = pick(rng, ['0', '1', '2', '5', '10', '12', '100', '1.5', '.5', '0.25', '-1', '-10', '-.5'])
        return num + pick(rng, CSS_UNITS)
    if r < 0.65:
        return pick(rng, CSS_KEYWORDS)
    if r < 0.8:
        return pick(rng, CSS_COLORS)
    if r < 0.86:
        return pick(rng, ['${1:10}', '${2}', '$foo', '$x-y', '@bar', '--my-var'])
    if r < 0.93:
        return pick(rng, ["'str'", '"s t"', "''"])
    return pick(rng, ['scale(2)', 'rgb(0,0,0)', 'url(a.png)', 'repeat(2, 1fr)', 'lg(to right, #0, #f)', 'calc(1+2)'])


def gen_css_property(rng, feat):
    user = feat.get('user_snippets') or []
    if user and maybe(rng, 0.3):
        name = pick(rng, user)
    else:
        name = pick(rng, CSS_NAMES)
    s = name
    nvals = pick(rng, [0, 0, 1, 1, 1, 2, 3, 4])
    vals = [gen_css_value(rng) for _ in range(nvals)]
    if vals:
        first = vals[0]
        glue = '' if (first[0].isdigit() or first[0] in '.#$-@') and maybe(rng, 0.7) else pick(rng, ['-', ':', '-'])
        s += glue + '-'.join(vals) if maybe(rng, 0.85) else glue + ','.join(vals)
    if maybe(rng, 0.1):
        s += '!'
    return s


def gen_stylesheet(rng, feat):
    n = pick(rng, [1, 1, 1, 2, 2, 3, 4])
    return '+'.join(gen_css_property(rng, feat) for _ in range(n))


# ---------------------------------------------------------------------------
# F1: malformed input

def mutate(rng, abbr):
    "Splices a known-bad fragment or mutates characters (fault kind F1: malformed input)"
    r = rng.random()
    if r < 0.6 or not abbr:
        pos = rng.randint(0, len(abbr))
        return abbr[:pos] + pick(rng, BAD_FRAGMENTS) + abbr[pos:]
    if r < 0.8:
        pos = rng.randrange(len(abbr))
        return abbr[:pos] + abbr[pos + 1:]
    if r < 0.9:
        pos = rng.randrange(len(abbr))
        return abbr[:pos] + pick(rng, '()[]{}"\'>+^*$#.=/ ') + abbr[pos + 1:]
    pos = rng.randrange(len(abbr))
    return abbr[:pos] + abbr[pos] * 2 + abbr[pos:]


def alias_chain(n, end='div.end>p'):
    "User snippets forming an alias chain al0 -> al1 -> ... -> end (moves F4 into snippet resolution)"
    out = {}
    for i in range(n):
        out['al%d' % i] = ('al%d' % (i + 1)) if i + 1 < n else end
    return out
