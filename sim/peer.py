"""The simulated editor: plays `output.field` and `output.text`.

py-emmet asks these two callbacks for every string it emits and believes the
length of the answer. The peer's answers are a pure function of
(peer seed, call-local invocation number, arguments) so that the system under
test and the pristine reference see the very same editor. It records every
invocation and can fail at its k-th invocation (fault kind F3).

Assumption A2: answers never contain line-break characters and a pushed text
that contains a line break (or the configured newline string) is returned
unchanged, so that "line" and "column" stay well defined.
"""
from .util import h64

LINE_BREAKS = '\n\r\v\f\x1c\x1d\x1e\x85\u2028\u2029'

STYLES = ('identity', 'textmate', 'marker', 'escape', 'double', 'drop', 'upper', 'mixed')
TEXT_STYLES = ('identity', 'escape', 'double', 'drop', 'upper')
FIELD_STYLES = ('identity', 'textmate', 'marker', 'empty')

MARK = 'abcdefghijklm'


class PeerFault(Exception):
    "Raised by the simulated callback at its k-th invocation (fault F3)"


def has_line_break(text: str) -> bool:
    for ch in text:
        if ch in LINE_BREAKS:
            return True
    return False


FAULT_EXCEPTIONS = {'PeerFault': PeerFault, 'TypeError': TypeError, 'ValueError': ValueError, 'KeyError': KeyError,
                    'RuntimeError': RuntimeError, 'AttributeError': AttributeError}


class Peer:
    __slots__ = ('seed', 'style', 'protect', 'log', 'n', 'fail_at', 'fired', 'fail_exc', 'inside')

    def __init__(self, spec: dict, protect=()):
        self.seed = spec.get('seed', 0)
        self.style = spec.get('style', 'identity')
        self.protect = tuple(p for p in protect if p)
        self.log = []
        self.n = 0
        self.fail_at = None
        self.fired = False
        self.fail_exc = PeerFault
        self.inside = None

    def begin(self, fail_at=None, exc=None):
        self.log = []
        self.n = 0
        self.fail_at = fail_at
        self.fired = False
        # the editor's callback fails the way real callbacks do: with ordinary exceptions
        self.fail_exc = FAULT_EXCEPTIONS.get(exc or 'PeerFault', PeerFault)

    # -- answers ------------------------------------------------------------
    def _field_style(self, n):
        s = self.style
        if s in ('identity', 'textmate', 'marker'):
            return s
        if s == 'mixed':
            return FIELD_STYLES[h64(self.seed, 'fs', n) % len(FIELD_STYLES)]
        return 'marker'

    def _text_style(self, n):
        s = self.style
        if s in ('identity', 'textmate', 'marker'):
            return 'identity'
        if s == 'mixed':
            return TEXT_STYLES[h64(self.seed, 'ts', n) % len(TEXT_STYLES)]
        return s

    def answer_field(self, n, index, placeholder):
        fs = self._field_style(n)
        if isinstance(placeholder, str) and has_line_break(placeholder):
            # A2: an answer never contains line breaks, also when the placeholder it is
            # made from does (`${1:a<LF>b}`): this editor flattens such placeholders
            placeholder = ''.join(' ' if ch in LINE_BREAKS else ch for ch in placeholder)
        if fs == 'identity':
            return placeholder
        if fs == 'textmate':
            return '${%s:%s}' % (index, placeholder) if placeholder else '${%s}' % index
        if fs == 'empty':
            return ''
        size = h64(self.seed, 'fl', n, index) % 13
        return ('⟦' + (MARK * 2)[:size] + str(index) + '⟧') if size else ''

    def answer_text(self, n, text):
        if not isinstance(text, str):
            return text
        if self.inside and self.inside in text and text != self.inside:
            # a chunk that carries the newline string AND something else. With an empty baseIndent the
            # library's own newline chunk is exactly the newline string, so whatever else travels with
            # it (e.g. indentation folded into the same chunk) is ordinary text: this editor rewrites
            # it like any other text and leaves every newline string alone
            pieces = text.split(self.inside)
            if not any(has_line_break(x) for x in pieces):
                return self.inside.join(self.answer_text(n, x) if x else x for x in pieces)
            return text
        if has_line_break(text):
            return text
        for p in self.protect:
            if p in text:
                return text
        ts = self._text_style(n)
        if ts == 'identity':
            return text
        if ts == 'escape':
            return text.replace('&', '&amp;').replace('<', '&lt;').replace('>', '&gt;').replace('"', '&quot;')
        if ts == 'double':
            return text + text
        if ts == 'drop':
            return '' if h64(self.seed, 'dr', n) % 4 == 0 else text
        if ts == 'upper':
            return text.upper()
        return text

    # -- the two callbacks --------------------------------------------------
    def field(self, index, placeholder='', **kw):
        self.n += 1
        n = self.n
        if self.fail_at is not None and n == self.fail_at:
            self.fired = True
            raise self.fail_exc('peer failed at invocation %d (field)' % n)
        ret = self.answer_field(n, index, placeholder)
        self.log.append(('field', index, placeholder, kw.get('offset'), kw.get('line'), kw.get('column'), ret))
        return ret

    def text(self, text, **kw):
        self.n += 1
        n = self.n
        if self.fail_at is not None and n == self.fail_at:
            self.fired = True
            raise self.fail_exc('peer failed at invocation %d (text)' % n)
        ret = self.answer_text(n, text)
        self.log.append(('text', None, text, kw.get('offset'), kw.get('line'), kw.get('column'), ret))
        return ret
