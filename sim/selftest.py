"""Self-tests of the machinery (not part of quick/thorough):

  check selftest determinism [--runs N]   same seeds twice, other worker counts,
                                          fresh interpreters, other PYTHONHASHSEED:
                                          all batch digests must agree
  check selftest sensitivity [--only X]   break a property on purpose in a scratch
                                          copy of the repository (outside /repo and
                                          /verif), expect VIOLATION for the right
                                          property within the quick budget, delete
                                          the copy
  check selftest soundness [--only X]     apply property-PRESERVING refactors to a scratch
                                          copy (they must pass the repository's tests) and
                                          expect every check to stay quiet
"""
import argparse
import json
import os
import re
import shutil
import subprocess
import sys
import tempfile
import time

VERIF = os.path.dirname(os.path.dirname(os.path.abspath(__file__)))
CHECK = os.path.join(VERIF, 'bin', 'check')
REPO = os.path.realpath(os.environ.get('VERIF_REPO', '/repo'))

# (name, property, file, old, new)
MUTATIONS = [
    ('text-restored-only-on-success', 'C08', 'emmet/markup/__init__.py',
     "    finally:\n        config.user_config['text'] = text\n    return abbr",
     "    except ValueError:\n        pass\n    config.user_config['text'] = text\n    return abbr"),
    ('text-restored-in-except-Exception-only', 'C08', 'emmet/markup/__init__.py',
     "    finally:\n        config.user_config['text'] = text\n    return abbr",
     "    except Exception:\n        config.user_config['text'] = text\n        raise\n    config.user_config['text'] = text\n    return abbr"),
    ('units-written-into-cached-tokens', 'C08', 'emmet/stylesheet/__init__.py',
     "node.value = [CSSValue(copy_tokens(v.value)) for v in default_value]",
     "node.value = default_value"),
    ('bem-lookup-at-module-level', 'C08', 'emmet/markup/__init__.py',
     "        bem_lookup = {}\n", "        bem_lookup = _BEM_LOOKUP\n"),
    ('merged-data-memoised-by-type-syntax-key', 'C08', 'emmet/config.py',
     "    empty = {}\n    type_defaults",
     "    empty = {}\n    memo_key = (syntax_type, syntax, key)\n    if memo_key in _MEMO:\n        return dict(_MEMO[memo_key])\n    type_defaults"),
    ('module-level-snippet-cache-ignores-config', 'C08', 'emmet/stylesheet/__init__.py',
     "    if snippets is None:\n        snippets = convert_snippets(config.snippets)",
     "    if snippets is None:\n        if not _SNIPPET_CACHE:\n            _SNIPPET_CACHE.append(convert_snippets(config.snippets))\n        snippets = _SNIPPET_CACHE[0]"),
    ('caret-list-appended-to', 'C08', 'emmet/markup/format/html.py',
     "        elif not value:\n            value = caret\n",
     "        elif not value:\n            value = caret\n            if len(caret) < 3 and attr.name == 'data-x':\n                caret.append(' ')\n"),
    ('snippet-definition-memoised-by-name', 'C08', 'emmet/markup/snippets.py',
     "        snippet = config.snippets.get(child.name) if child.name else None\n",
     "        snippet = config.snippets.get(child.name) if child.name else None\n        if snippet and ':' not in child.name and len(child.name) == 3:\n            snippet = _SEEN.setdefault(child.name, snippet)\n"),
    ('convert-state-options-memoised-by-abbreviation', 'C08', 'emmet/markup/__init__.py',
     "            'jsx': bool(config.options.get('jsx.enabled')),\n",
     "            'jsx': _JSX.setdefault(abbr, bool(config.options.get('jsx.enabled'))),\n"),
    ('tokenizer-memoised-by-source-string-without-bound', 'C08', 'emmet/abbreviation/__init__.py',
     "        tokens = tokenize(abbr) if isinstance(abbr, str) else abbr\n",
     "        if isinstance(abbr, str):\n            if abbr not in _TOKENS:\n                _TOKENS[abbr] = tokenize(abbr)\n            tokens = list(_TOKENS[abbr])\n        else:\n            tokens = abbr\n"),
    ('warning-text-contains-the-input', 'C08', 'emmet/stylesheet/format.py',
     "        abbr = [node for node in abbr if node.snippet is not None or node.important]\n",
     "        for node in abbr:\n            if node.snippet is None and not node.important and node.name:\n                warnings.warn('no snippet for %s' % node.name)\n        abbr = [node for node in abbr if node.snippet is not None or node.important]\n"),
    ('last-parsed-tree-kept-for-debugging', 'C08', 'emmet/markup/__init__.py',
     "    finally:\n        config.user_config['text'] = text\n    return abbr",
     "    finally:\n        config.user_config['text'] = text\n    _LAST[:] = [abbr]\n    return abbr"),
    ('json-flag-kept-in-module-state-and-reset-on-success-only', 'C08', 'emmet/stylesheet/format.py',
     "    for i, prop in enumerate(abbr):\n        if fmt and i != 0:\n            out.push_newline(True)\n        css_property(prop, out, config)\n\n    return out.value",
     "    if config.options.get('stylesheet.json'):\n        _STATE['json'] = True\n    for i, prop in enumerate(abbr):\n        if fmt and i != 0:\n            out.push_newline(True)\n        css_property(prop, out, config)\n    _STATE['json'] = False\n\n    return out.value"),
    ('implicit-tag-mode-switched-around-one-callee-and-switched-back-on-success-only', 'C08', 'emmet/markup/__init__.py',
     "    lorem(node, ancestors, config)\n",
     "    _mode = ELEMENT_MAP.pop('ul', None)\n    lorem(node, ancestors, config)\n    if _mode is not None:\n        ELEMENT_MAP['ul'] = _mode\n"),
    ('per-call-log-parked-in-the-callers-cache', 'C08', 'emmet/stylesheet/__init__.py',
     "        if config.cache is not None:\n            config.cache['stylesheet_snippets'] = snippets\n",
     "        if config.cache is not None:\n            config.cache['stylesheet_snippets'] = snippets\n    if config.cache is not None:\n        config.cache.setdefault('stylesheet_recent', []).append(str(abbr))\n"),
    ('offset-not-advanced-in-push-field', 'C13', 'emmet/output_stream.py',
     "        self._push(field(index, placeholder, offset=self.offset, line=self.line, column=self.column))",
     "        val = field(index, placeholder, offset=self.offset, line=self.line, column=self.column)\n        self._value.append(val)\n        self.column += len(val)"),
    ('column-not-reset-after-newline', 'C13', 'emmet/output_stream.py',
     "        self.column = len(base_indent)\n", "        pass\n"),
    ('line-incremented-before-newline-push', 'C13', 'emmet/output_stream.py',
     "        self.push('%s%s' % (newline, base_indent))\n        self.line += 1\n",
     "        self.line += 1\n        self.push('%s%s' % (newline, base_indent))\n"),
    ('field-index-not-advanced-in-push-tokens', 'C13', 'emmet/markup/format/utils.py',
     "        state.field += largest_index + 1", "        state.field += largest_index"),
    ('column-counts-newline-chars-for-crlf', 'C13', 'emmet/output_stream.py',
     "        self.column = len(base_indent)\n", "        self.column = len(base_indent) + len(newline) - 1\n"),
    ('indent-format-fields-numbered-per-line', 'C13', 'emmet/markup/format/indent_format.py',
     "            state.field = field_base\n", ""),
    ('global-syntax-layer-before-global-type-layer', 'C20', 'emmet/config.py',
     "    if key in type_override: result.update(type_override[key])\n    if key in syntax_override: result.update(syntax_override[key])\n",
     "    if key in syntax_override: result.update(syntax_override[key])\n    if key in type_override: result.update(type_override[key])\n"),
    ('merge-into-built-in-table', 'C20', 'emmet/config.py',
     "    result = {}\n    result.update(DEFAULT_CONFIG.get(key, empty))\n",
     "    result = DEFAULT_CONFIG.get(key, empty)\n    if key != 'options':\n        result = dict(result)\n"),
    ('expand-drops-global-config', 'C20', 'emmet/__init__.py',
     "        resolved_config = Config(config, global_config)",
     "        resolved_config = Config(config, {} if config.get('type') == 'stylesheet' else global_config)"),
    ('unknown-syntax-falls-back-to-html-defaults', 'C20', 'emmet/config.py',
     "    syntax_defaults = SYNTAX_CONFIG.get(syntax, empty)",
     "    syntax_defaults = SYNTAX_CONFIG.get(syntax, SYNTAX_CONFIG.get('xml'))"),
    ('option-read-from-the-raw-user-layer', 'C20', 'emmet/markup/format/html.py',
     "                    inner_format = config.options.get('output.formatLeafNode') or \\\n",
     "                    inner_format = (config.user_config.get('options') or {}).get('output.formatLeafNode') or \\\n"),
    ('option-read-from-a-constant-captured-at-import', 'C20', 'emmet/output_stream.py',
     "        return node.lower() in config.options.get('inlineElements', [])\n",
     "        return node.lower() in _INLINE\n"),
    ('user-layer-written-back', 'C20', 'emmet/config.py',
     "    result.update(user_config.get(key, empty))\n",
     "    result.update(user_config.get(key, empty))\n    if key == 'variables' and key in user_config and syntax_override.get(key):\n        user_config[key].update(syntax_override[key])\n        result.update(user_config[key])\n"),
]

# Refactors that KEEP the properties: the checks must stay quiet on them (exit 0).
# (name, properties to run, [(file, old, new), ...])
EQUIVALENT = [
    ('restore-text-via-helper-called-in-finally', ['C08'], [
        ('emmet/markup/__init__.py',
         "    finally:\n        config.user_config['text'] = text\n    return abbr",
         "    finally:\n        _restore_text(config, text)\n    return abbr\n\n\ndef _restore_text(config, text):\n    _set_key(config.user_config, 'text', text)\n\n\ndef _set_key(d, k, v):\n    d[k] = v"),
    ]),
    ('restore-text-in-except-BaseException-and-reraise', ['C08'], [
        ('emmet/markup/__init__.py',
         "    finally:\n        config.user_config['text'] = text\n    return abbr",
         "    except BaseException:\n        _put_back(config, text)\n        raise\n    _put_back(config, text)\n    return abbr\n\n\ndef _put_back(config, text):\n    config.user_config['text'] = text"),
    ]),
    ('comment-templates-memoised-by-text', ['C08', 'C13'], [
        ('emmet/markup/format/comment.py', "from .template import template\n",
         "from .template import template as _template\n\n_TEMPLATES = {}\n\n\ndef template(text):\n    if text not in _TEMPLATES:\n        _TEMPLATES[text] = _template(text)\n    return _TEMPLATES[text]\n"),
    ]),
    ('stylesheet-snippets-memoised-by-table-content', ['C08'], [
        ('emmet/stylesheet/__init__.py',
         "    if snippets is None:\n        snippets = convert_snippets(config.snippets)",
         "    if snippets is None:\n        memo_key = tuple(sorted(config.snippets.items()))\n        if memo_key not in _CONVERTED:\n            _CONVERTED[memo_key] = convert_snippets(config.snippets)\n        snippets = _CONVERTED[memo_key]"),
        ('emmet/stylesheet/__init__.py', "gradient_name = 'lg'\n", "gradient_name = 'lg'\n_CONVERTED = {}\n"),
    ]),
    ('tokenizer-memoised-by-source-string-bounded-to-256-entries', ['C08', 'C13'], [
        ('emmet/abbreviation/__init__.py', "        tokens = tokenize(abbr) if isinstance(abbr, str) else abbr\n",
         "        if isinstance(abbr, str):\n            if abbr not in _TOKENS:\n                if len(_TOKENS) >= 256:\n                    _TOKENS.clear()\n                _TOKENS[abbr] = tokenize(abbr)\n            tokens = list(_TOKENS[abbr])\n        else:\n            tokens = abbr\n"),
        ('emmet/abbreviation/__init__.py', "from ..scanner import ScannerException\n", "from ..scanner import ScannerException\n\n_TOKENS = {}\n"),
    ]),
    ('newline-written-without-consulting-output-text', ['C13'], [
        ('emmet/output_stream.py',
         "        self.push('%s%s' % (newline, base_indent))\n        self.line += 1\n",
         "        self._push('%s%s' % (newline, base_indent))\n        self.line += 1\n"),
    ]),
    ('tag-open-and-name-pushed-separately', ['C13'], [
        ('emmet/markup/format/html.py', "        out.push_string('<%s' % name)\n", "        out.push_string('<')\n        out.push_string(name)\n"),
    ]),
    ('newline-and-base-indent-pushed-separately', ['C13', 'C08'], [
        ('emmet/output_stream.py',
         "        self.push('%s%s' % (newline, base_indent))\n        self.line += 1\n        self.column = len(base_indent)\n",
         "        self.push(newline)\n        self.line += 1\n        self.column = 0\n        if base_indent:\n            self.push(base_indent)\n"),
    ]),
    ('expand-with-None-defaults', ['C08', 'C20'], [
        ('emmet/__init__.py', "def expand(abbr: str, config: dict={}, global_config: dict={}) -> str:\n    \"Expands given abbreviation into code snippet\"\n",
         "def expand(abbr: str, config: dict=None, global_config: dict=None) -> str:\n    \"Expands given abbreviation into code snippet\"\n    if config is None:\n        config = {}\n    if global_config is None:\n        global_config = {}\n"),
    ]),
    ('merged-data-with-dict-unpacking', ['C20', 'C08'], [
        ('emmet/config.py',
         "    result = {}\n    result.update(DEFAULT_CONFIG.get(key, empty))\n    if key in type_defaults: result.update(type_defaults[key])\n    if key in syntax_defaults: result.update(syntax_defaults[key])\n    if key in type_override: result.update(type_override[key])\n    if key in syntax_override: result.update(syntax_override[key])\n    result.update(user_config.get(key, empty))\n",
         "    result = {**DEFAULT_CONFIG.get(key, empty), **type_defaults.get(key, empty), **syntax_defaults.get(key, empty),\n              **type_override.get(key, empty), **syntax_override.get(key, empty), **user_config.get(key, empty)}\n"),
    ]),
    ('markup-walk-with-explicit-stack', ['C08', 'C13'], [
        ('emmet/markup/utils.py',
         "    ancestors = [node]\n    def callback(ctx: AbbreviationNode):\n        fn(ctx, ancestors, state)\n        ancestors.append(ctx)\n        for child in ctx.children:\n            callback(child)\n        ancestors.pop()\n\n    for child in node.children:\n        callback(child)\n",
         "    ancestors = [node]\n    stack = [(child, 1) for child in reversed(node.children)]\n    while stack:\n        ctx, depth = stack.pop()\n        del ancestors[depth:]\n        fn(ctx, ancestors, state)\n        ancestors.append(ctx)\n        for child in reversed(ctx.children):\n            stack.append((child, depth + 1))\n"),
    ]),
    ('score-memoised-in-a-bounded-lru-cache', ['C08'], [
        ('emmet/stylesheet/score.py', "def calculate_score(str1: str, str2: str, partial_match=False):\n",
         "import functools\n\n\n@functools.lru_cache(maxsize=512)\ndef calculate_score(str1: str, str2: str, partial_match=False):\n"),
    ]),
    ('merged-data-as-a-loop-in-the-same-order', ['C20', 'C08'], [
        ('emmet/config.py',
         "    if key in type_defaults: result.update(type_defaults[key])\n    if key in syntax_defaults: result.update(syntax_defaults[key])\n    if key in type_override: result.update(type_override[key])\n    if key in syntax_override: result.update(syntax_override[key])\n",
         "    for layer in (type_defaults, syntax_defaults, type_override, syntax_override):\n        if key in layer:\n            for k, v in layer[key].items():\n                result[k] = v\n"),
    ]),
    ('config-copies-nested-option-values', ['C20', 'C08', 'C13'], [
        ('emmet/config.py', "    result.update(user_config.get(key, empty))\n\n    return result",
         "    result.update(user_config.get(key, empty))\n\n    return {k: (list(v) if isinstance(v, list) else v) for k, v in result.items()}"),
    ]),
    ('bem-regexes-compiled-lazily-into-module-cache', ['C08'], [
        ('emmet/markup/addon/bem.py', "def block_candidates1(class_name: str):\n    return re.match(r'^[a-z]-', class_name, re.I)",
         "_RE = {}\n\n\ndef _rx(p):\n    if p not in _RE:\n        _RE[p] = re.compile(p, re.I)\n    return _RE[p]\n\n\ndef block_candidates1(class_name: str):\n    return _rx(r'^[a-z]-').match(class_name)"),
    ]),
]

PREAMBLE = {
    'json-flag-kept-in-module-state-and-reset-on-success-only': ('emmet/stylesheet/format.py', "\n_STATE = {'json': False}\n"),
    'implicit-tag-mode-switched-around-one-callee-and-switched-back-on-success-only': ('emmet/markup/__init__.py', "\nfrom .implicit_tag import ELEMENT_MAP\n"),
    'option-read-from-a-constant-captured-at-import': ('emmet/output_stream.py', "\nfrom .config import DEFAULT_OPTIONS\n_INLINE = DEFAULT_OPTIONS['inlineElements']\n"),
    'tokenizer-memoised-by-source-string-without-bound': ('emmet/abbreviation/__init__.py', "\n_TOKENS = {}\n"),
    'warning-text-contains-the-input': ('emmet/stylesheet/format.py', "\nimport warnings\n"),
    'last-parsed-tree-kept-for-debugging': ('emmet/markup/__init__.py', "\n_LAST = []\n"),
    'snippet-definition-memoised-by-name': ('emmet/markup/snippets.py', "\n_SEEN = {}\n"),
    'convert-state-options-memoised-by-abbreviation': ('emmet/markup/__init__.py', "\n_JSX = {}\n"),
    'bem-lookup-at-module-level': ('emmet/markup/__init__.py', "\n_BEM_LOOKUP = {}\n"),
    'merged-data-memoised-by-type-syntax-key': ('emmet/config.py', "\n_MEMO = {}\n"),
    'module-level-snippet-cache-ignores-config': ('emmet/stylesheet/__init__.py', "\n_SNIPPET_CACHE = []\n"),
}
POSTAMBLE = {
    'json-flag-kept-in-module-state-and-reset-on-success-only': ('emmet/stylesheet/format.py', "    is_json = config.options.get('stylesheet.json')\n\n    if node.name:", "    is_json = config.options.get('stylesheet.json') or _STATE['json']\n\n    if node.name:"),
    'merged-data-memoised-by-type-syntax-key': ('emmet/config.py', "    return result\n", "    _MEMO[memo_key] = dict(result)\n    return result\n"),
}


def run_check(args, env_extra, timeout=3600):
    env = dict(os.environ)
    env.update(env_extra)
    t = time.time()
    p = subprocess.run([sys.executable, CHECK] + args, env=env, stdout=subprocess.PIPE, stderr=subprocess.STDOUT, timeout=timeout)
    return p.returncode, p.stdout.decode('utf-8', 'replace'), time.time() - t


def sensitivity(argv):
    ap = argparse.ArgumentParser()
    ap.add_argument('--only')
    ap.add_argument('--runs', type=int, default=1500)
    ap.add_argument('--patch', help='apply this patch file (git apply) instead of the built-in mutations')
    ap.add_argument('--props', default='C08,C13,C20')
    args = ap.parse_args(argv)
    report = []
    failed = 0
    muts = MUTATIONS
    if args.patch:
        muts = [(os.path.basename(args.patch), p, None, None, None) for p in args.props.split(',')]
    for name, prop, rel, old, new in muts:
        if args.only and args.only not in name and args.only != prop:
            continue
        tmp = tempfile.mkdtemp(prefix='emmet-mut-')
        try:
            shutil.copytree(os.path.join(REPO, 'emmet'), os.path.join(tmp, 'emmet'), ignore=shutil.ignore_patterns('__pycache__'))
            if args.patch:
                subprocess.run(['git', 'init', '-q'], cwd=tmp, check=True)
                r = subprocess.run(['git', 'apply', '--whitespace=nowarn', os.path.abspath(args.patch)], cwd=tmp)
                if r.returncode != 0:
                    print('cannot apply patch')
                    return 2
            else:
                path = os.path.join(tmp, rel)
                src = open(path).read()
                if old not in src:
                    print('MUTATION %-50s does not apply any more (source changed): skipped' % name)
                    report.append({'mutation': name, 'property': prop, 'status': 'not-applicable'})
                    continue
                src = src.replace(old, new, 1)
                if name in POSTAMBLE and POSTAMBLE[name][0] == rel:
                    src = src.replace(POSTAMBLE[name][1], POSTAMBLE[name][2])
                if name in PREAMBLE and PREAMBLE[name][0] == rel:
                    # after the imports
                    m = list(re.finditer(r'^(from|import) .*$', src, re.M))
                    pos = m[-1].end() if m else 0
                    # multi-line imports: move to the end of the statement
                    while src[pos - 1] == '\\' or src[pos:pos + 1] not in ('\n', ''):
                        pos = src.index('\n', pos) + 1
                    src = src[:pos] + '\n' + PREAMBLE[name][1] + src[pos:]
                open(path, 'w').write(src)
            env = {'VERIF_REPO': tmp, 'VERIF_EVIDENCE_DIR': os.path.join(tmp, 'evidence'),
                   'VERIF_REPLAY_DIR': os.path.join(tmp, 'replays')}
            code, out, secs = run_check([prop, '--runs', str(args.runs)], env)
            m = re.search(r'first at run (\d+)', out)
            first = int(m.group(1)) if m else None
            classes = re.findall(r'violation class (\S+):', out)
            ok = code == 1 and ('VIOLATION property=%s' % prop) in out
            status = 'detected' if ok else ('HARNESS-ERROR' if code == 2 else 'MISSED')
            if not ok:
                failed += 1
            print('MUTATION %-50s %s %-8s exit=%d first-violating-run=%s classes=%s (%.0fs)' % (name, prop, status, code, first, classes, secs))
            if code == 2:
                print(out[-1500:])
            report.append({'mutation': name, 'property': prop, 'status': status, 'first_violating_run': first,
                           'classes': classes, 'seconds': round(secs, 1)})
        finally:
            shutil.rmtree(tmp, ignore_errors=True)
    out_path = os.path.join(VERIF, 'notes', 'sensitivity_report.json')
    if not args.only and not args.patch:
        with open(out_path, 'w') as fh:
            json.dump(report, fh, indent=1)
            fh.write('\n')
    print('sensitivity: %d mutations, %d not detected' % (len(report), failed))
    return 1 if failed else 0


def soundness(argv):
    ap = argparse.ArgumentParser()
    ap.add_argument('--only')
    ap.add_argument('--runs', type=int, default=2500)
    args = ap.parse_args(argv)
    bad = 0
    n = 0
    for name, props, edits in EQUIVALENT:
        if args.only and args.only not in name:
            continue
        tmp = tempfile.mkdtemp(prefix='emmet-eq-')
        try:
            shutil.copytree(os.path.join(REPO, 'emmet'), os.path.join(tmp, 'emmet'), ignore=shutil.ignore_patterns('__pycache__'))
            ok_apply = True
            for rel, old, new in edits:
                path = os.path.join(tmp, rel)
                src = open(path).read()
                if old not in src:
                    ok_apply = False
                    break
                open(path, 'w').write(src.replace(old, new, 1))
            if not ok_apply:
                print('REFACTOR %-55s does not apply any more: skipped' % name)
                continue
            # the refactored copy must still pass the repository's own tests
            shutil.copytree(os.path.join(REPO, 'tests'), os.path.join(tmp, 'tests'), ignore=shutil.ignore_patterns('__pycache__'))
            p = subprocess.run([sys.executable, '-m', 'pytest', '-q', '-p', 'no:cacheprovider', '-x'], cwd=tmp,
                               stdout=subprocess.PIPE, stderr=subprocess.STDOUT, env=dict(os.environ, PYTHONPATH=tmp))
            tail = p.stdout.decode('utf-8', 'replace').strip().splitlines()[-1:]
            if p.returncode != 0:
                print('REFACTOR %-55s breaks the test suite (%s): not a valid refactor, skipped' % (name, tail))
                continue
            env = {'VERIF_REPO': tmp, 'VERIF_EVIDENCE_DIR': os.path.join(tmp, 'evidence'),
                   'VERIF_REPLAY_DIR': os.path.join(tmp, 'replays')}
            for prop in props:
                n += 1
                code, out, secs = run_check([prop, '--runs', str(args.runs)], env)
                status = 'quiet' if code == 0 else ('HARNESS-ERROR' if code == 2 else 'FALSE-ALARM')
                if code != 0:
                    bad += 1
                print('REFACTOR %-55s %s %-12s exit=%d (%.0fs)' % (name, prop, status, code, secs), flush=True)
                if code != 0:
                    print(out[-2500:])
        finally:
            shutil.rmtree(tmp, ignore_errors=True)
    print('soundness: %d checks on property-preserving refactors, %d alarms' % (n, bad))
    return 1 if bad else 0


def digest_of(out):
    m = re.search(r'digest ([0-9a-f]{16})', out)
    return m.group(1) if m else None


def determinism(argv):
    ap = argparse.ArgumentParser()
    ap.add_argument('--runs', type=int, default=700)
    ap.add_argument('--props', default='C08,C13,C20')
    args = ap.parse_args(argv)
    tmp = tempfile.mkdtemp(prefix='emmet-det-')
    bad = 0
    try:
        base_env = {'VERIF_EVIDENCE_DIR': os.path.join(tmp, 'evidence'), 'VERIF_REPLAY_DIR': os.path.join(tmp, 'replays')}
        for prop in args.props.split(','):
            variants = [
                ('W=16 hash=0', ['--workers', '16'], {}),
                ('W=16 hash=0 again', ['--workers', '16'], {}),
                ('W=1 hash=0', ['--workers', '1'], {}),
                ('W=5 hash=0', ['--workers', '5'], {}),
                ('W=16 hash=1', ['--workers', '16'], {'VERIF_HASHSEED': '1'}),
                ('W=7 hash=12345', ['--workers', '7'], {'VERIF_HASHSEED': '12345'}),
            ]
            digests = []
            for label, extra, env in variants:
                e = dict(base_env)
                e.update(env)
                runs = args.runs if 'W=1 ' not in label else max(50, args.runs // 6)
                code, out, secs = run_check([prop, '--runs', str(runs), '--seed', '777'] + extra, e)
                d = digest_of(out)
                digests.append((label, runs, d, code))
                print('%s %-22s runs=%d exit=%d digest=%s (%.0fs)' % (prop, label, runs, code, d, secs), flush=True)
                if code not in (0, 1) or d is None:
                    bad += 1
                    print(out[-1200:])
            full = set(d for (label, runs, d, code) in digests if runs == args.runs)
            if len(full) != 1:
                bad += 1
                print('%s: DIGESTS DIFFER across workers/hash seeds: %s' % (prop, sorted(full)))
            # the W=1 run covers a prefix only: compare with a W=16 run of the same length
            small = [x for x in digests if x[1] != args.runs]
            if small:
                code, out, secs = run_check([prop, '--runs', str(small[0][1]), '--seed', '777', '--workers', '16'], base_env)
                if digest_of(out) != small[0][2]:
                    bad += 1
                    print('%s: W=1 digest %s differs from W=16 digest %s' % (prop, small[0][2], digest_of(out)))
                else:
                    print('%s W=1 prefix digest matches W=16' % prop)
    finally:
        shutil.rmtree(tmp, ignore_errors=True)
    print('determinism: %s' % ('OK' if not bad else '%d PROBLEMS' % bad))
    return 1 if bad else 0


def main(argv):
    if not argv or argv[0] not in ('determinism', 'sensitivity', 'soundness'):
        print(__doc__)
        return 2
    if argv[0] == 'determinism':
        return determinism(argv[1:])
    if argv[0] == 'soundness':
        return soundness(argv[1:])
    return sensitivity(argv[1:])
