"""Systematic fault sweep for C08 (the deterministic part of the search).

Random histories place faults at seeded positions; the sweep walks a fixed set of
call shapes that keep state in flight (wrap text removed, cache being filled,
BEM memo, held Config, peer mid-format, alias chains) and moves one fault
through each of them in M evenly spaced steps per placement mode:

  F5 nth   : entry 1 + floor(j/M * N) of the N library function entries of the call
  F5 func  : function number floor(j/M * F) of the F distinct functions, first/middle/last entry
  F4       : recursion budgets 5 .. 400
  F3       : peer invocation 1 + floor(j/M * P)

followed by state-revealing probes on the same objects. A sweep history is a
pure function of (tier, index); no seed is involved.
"""
from . import gen_abbr as ga

USER_SN = {k: ga.MARKUP_USER_SNIPPETS[k] for k in ('foo', 'repeat', 'link', 'fld', 'grp', 'ali', 'rep', 'bemb')}
STYLE_SN = {k: ga.STYLESHEET_USER_SNIPPETS[k] for k in ('kmar', 'kpad', 'klh', 'kwid', 'kmm', 'zidx', 'rawa', 'bgbm', 'bdst',
                                                         'cola', 'kdis', 'fna', 'gtx', 'stra')}
STYLE_SN['brand'] = 'color:#ff0000|#00ff00|#0000ff'


def _w(configs, caches=(), globals_=None):
    return {'configs': {c['id']: c for c in configs}, 'caches': list(caches), 'globals': globals_ or {}}


def shapes():
    "[(name, world, faulted call (cfg, abbr), probes [(cfg, abbr)], kinds)]"
    out = []
    txt = ['foo', 'bar', 'http://emmet.io']
    out.append(('text+snippets+bem/dict',
                _w([{'id': 'c0', 'holder': 'dict', 'text': txt, 'snippets': USER_SN, 'options': {'bem.enabled': True}}]),
                ('c0', 'ul.nav>li.-item$*>foo+a.-link'), [('c0', 'ul>li*'), ('c0', 'a')], 'F5 F4'))
    out.append(('text+snippets/held-Config',
                _w([{'id': 'c0', 'holder': 'Config', 'text': txt, 'snippets': USER_SN}]),
                ('c0', 'div>grp>repeat+link:css'), [('c0', 'ul>.item$*'), ('c0', 'img[src="$#"]*')], 'F5 F4'))
    chain = dict(USER_SN)
    chain.update(ga.alias_chain(25))
    out.append(('text+alias-chain',
                _w([{'id': 'c0', 'holder': 'dict', 'text': 'wrapped', 'snippets': chain}]),
                ('c0', 'div>al0*2'), [('c0', 'p'), ('c0', 'ul>li*')], 'F5 F4'))
    out.append(('text+peer/held-Config',
                _w([{'id': 'c0', 'holder': 'Config', 'text': txt, 'peer': {'seed': 7, 'style': 'textmate'},
                     'options': {'output.newline': '\r\n', 'comment.enabled': True}}]),
                ('c0', 'ul#m.x>.item$*>a[title]'), [('c0', 'ul>li*'), ('c0', 'div#a>p*')], 'F5 F3'))
    out.append(('bem+context',
                _w([{'id': 'c0', 'holder': 'dict', 'options': {'bem.enabled': True},
                     'context': {'name': 'div', 'attributes': {'class': 'blk blk_m'}}, 'text': ['t']}]),
                ('c0', '.-e_m>.--x+.b>.-f'), [('c0', '.-e'), ('c0', 'ul>.-item*')], 'F5'))
    out.append(('pug+text', _w([{'id': 'c0', 'holder': 'dict', 'syntax': 'pug', 'text': ['a b', 'c\nd']}]),
                ('c0', 'ul>li*>span{x}'), [('c0', 'ul>li*'), ('c0', 'p')], 'F5'))
    out.append(('jsx+global',
                _w([{'id': 'c0', 'holder': 'dict', 'syntax': 'jsx', 'global': 'g0', 'text': 'T'}],
                   globals_={'g0': {'markup': {'snippets': {'gs': 'div.from-global'}, 'options': {'output.indent': '  '}},
                                    'jsx': {'options': {'output.selfClosingStyle': 'xhtml'}}}}),
                ('c0', 'Foo.Bar>gs+div..x+br'), [('c0', 'gs>p'), ('c0', 'br')], 'F5'))
    out.append(('lorem+text', _w([{'id': 'c0', 'holder': 'dict', 'text': ['l1', 'l2']}]),
                ('c0', 'ul>li*>lorem3'), [('c0', 'p*2>lorem2'), ('c0', 'ul>li*')], 'F5'))
    out.append(('deep-nesting+text+bem',
                _w([{'id': 'c0', 'holder': 'Config', 'text': 'deep', 'options': {'bem.enabled': True}}]),
                ('c0', '>'.join(['div.b%d' % i if i % 5 == 0 else 'p.-e' for i in range(45)])), [('c0', 'a'), ('c0', '.b>.-e')], 'F4'))
    out.append(('nested-groups+text', _w([{'id': 'c0', 'holder': 'dict', 'text': ['x', 'y']}]),
                ('c0', ga.gen_nested_groups(None, 25) if False else '(' * 25 + 'a>b' + ')' * 25), [('c0', 'ul>li*')], 'F4'))
    out.append(('bare-expand', _w([{'id': 'bare', 'holder': 'none'}, {'id': 'c0', 'holder': 'dict', 'text': ['z']}]),
                ('bare', 'ul>li.item$*3>a'), [('bare', 'ul>li*2'), ('c0', 'ul>li*')], 'F5'))
    # stylesheet
    out.append(('cache-fill/unitless',
                _w([{'id': 'c0', 'holder': 'dict', 'type': 'stylesheet', 'cache': 'k0', 'options': {'stylesheet.unitless': []}, 'snippets': STYLE_SN},
                    {'id': 'c1', 'holder': 'dict', 'type': 'stylesheet', 'cache': 'k0', 'snippets': STYLE_SN}], caches=['k0']),
                ('c0', 'zom+kmar+klh'), [('c1', 'zom+kmar+klh'), ('c0', 'kwid+zidx')], 'F5'))
    out.append(('cache-warm/int-unit',
                _w([{'id': 'c0', 'holder': 'Config', 'type': 'stylesheet', 'syntax': 'scss', 'cache': 'k0',
                     'options': {'stylesheet.intUnit': 'pt', 'stylesheet.unitAliases': {'p': 'pt'}}, 'snippets': STYLE_SN},
                    {'id': 'c1', 'holder': 'dict', 'type': 'stylesheet', 'syntax': 'sass', 'cache': 'k0', 'snippets': STYLE_SN}], caches=['k0']),
                ('c0', 'kmar+kwid+kmm+m10'), [('c1', 'kmar+kwid+kmm'), ('c0', 'kmar')], 'F5 warm'))
    out.append(('dependent-longhands/no-cache',
                _w([{'id': 'c0', 'holder': 'dict', 'type': 'stylesheet', 'snippets': STYLE_SN},
                    {'id': 'c1', 'holder': 'dict', 'type': 'stylesheet'}]),
                ('c0', 'bg:ov+bd-q'), [('c1', 'bg:ov+bd-q'), ('c1', 'bgmul')], 'F5 sparse'))
    out.append(('value-scope+peer',
                _w([{'id': 'c0', 'holder': 'dict', 'type': 'stylesheet', 'cache': 'k0', 'context': {'name': 'margin'},
                     'peer': {'seed': 3, 'style': 'double'}},
                    {'id': 'c1', 'holder': 'dict', 'type': 'stylesheet', 'cache': 'k0'}], caches=['k0']),
                ('c0', 'a+10+i'), [('c1', 'm10+zom'), ('c0', '5')], 'F5 F3 warm'))
    out.append(('css-in-js+raw-snippets',
                _w([{'id': 'c0', 'holder': 'Config', 'type': 'stylesheet', 'cache': 'k0', 'options': {'stylesheet.json': True},
                     'peer': {'seed': 9, 'style': 'marker'}}], caches=['k0']),
                ('c0', 'm10+@kf+bd1-s#fc0'), [('c0', 'zom+op.5'), ('c0', '@m')], 'F5 F3 warm'))
    return out


def plan(tier):
    "Deterministic list of sweep points for a tier"
    m = 10 if tier == 'quick' else 160
    pts = []
    for si, (name, world, call, probes, kinds) in enumerate(shapes()):
        kinds = kinds.split()
        sparse = 'sparse' in kinds or 'warm' in kinds
        if 'F5' in kinds:
            mm = max(4, m // 3) if (sparse and tier != 'quick') else m
            for j in range(mm):
                f = {'kind': 'F5', 'mode': 'nth', 'frac': round(j / mm, 6), 'frac2': 0.0}
                if j % 4 == 3:
                    f['exc'] = 'base'
                pts.append((si, f))
            for j in range(mm):
                f = {'kind': 'F5', 'mode': 'func', 'frac': round(j / mm, 6), 'frac2': (0.0, 0.5, 0.999)[j % 3]}
                if j % 5 == 4:
                    f['exc'] = 'base'
                pts.append((si, f))
        if 'F4' in kinds:
            step = 40 if tier == 'quick' else 4
            for b in range(5, 420, step):
                pts.append((si, {'kind': 'F4', 'budget': b}))
        if 'F3' in kinds:
            mm = max(4, m // 2)
            for j in range(mm):
                f = {'kind': 'F3', 'frac': round(j / mm, 6)}
                if j % 2:
                    f['exc'] = ('TypeError', 'ValueError', 'KeyError', 'RuntimeError')[(j // 2) % 4]
                pts.append((si, f))
    return pts


def scenarios():
    """Scripted fault-free histories: every kind of host action between two looks at the same
    objects (probe, act, probe, act back, probe), and every syntax used from several fresh
    configs in a row. They target memos keyed by identity or by part of the arguments and
    one-shot objects consumed by the first use."""
    out = []

    def call(cfg, abbr):
        return {'op': 'call', 'cfg': cfg, 'abbr': abbr, 'pin': 5}

    def scen(name, world, steps):
        out.append({'world': world, 'ops': steps, 'meta': {'scenario': name}})

    # 1. every syntax from three fresh, equal configs (dict, dict, held Config)
    markup = ['html', 'xml', 'xsl', 'jsx', 'js', 'pug', 'slim', 'haml', 'vue', 'svelte', 'xhtml', 'myml']
    style = ['css', 'sass', 'scss', 'less', 'sss', 'stylus', 'mycss']
    for syn in markup + style:
        t = 'stylesheet' if syn in style else 'markup'
        probes = list(ga.SYNTAX_PROBES.get(syn, [])) + (['m10+zom', 'bd', '@kf'] if t == 'stylesheet' else ['ul>li*2>a', '!', 'img+br', 'div.a[title]'])
        cfgs = []
        for i, holder in enumerate(['dict', 'dict', 'Config']):
            c = {'id': 'c%d' % i, 'holder': holder, 'syntax': syn}
            if t == 'stylesheet':
                c['type'] = t
            cfgs.append(c)
        steps = []
        for a in probes:
            for i in range(3):
                steps.append(call('c%d' % i, a))
        scen('fresh-configs/%s' % syn, _w(cfgs), steps)

    # 1a'. syntax names used with the OTHER type (type defaults to markup when only a syntax is given)
    cross = [{'id': 'c0', 'holder': 'dict', 'syntax': 'css'}, {'id': 'c1', 'holder': 'dict', 'type': 'stylesheet'},
             {'id': 'c2', 'holder': 'dict', 'syntax': 'scss'}, {'id': 'c3', 'holder': 'dict', 'type': 'stylesheet', 'syntax': 'scss'},
             {'id': 'c4', 'holder': 'dict', 'type': 'stylesheet', 'syntax': 'html'}, {'id': 'c5', 'holder': 'dict'},
             {'id': 'c6', 'holder': 'Config', 'type': 'stylesheet', 'syntax': 'pug'}, {'id': 'c7', 'holder': 'dict', 'syntax': 'pug'},
             {'id': 'c8', 'holder': 'dict', 'syntax': 'anysyn'}, {'id': 'c9', 'holder': 'dict', 'type': 'stylesheet', 'syntax': 'anysyn'}]
    for order in (list(range(10)), list(reversed(range(10)))):
        steps = []
        for i in order + order:
            c = cross[i]
            steps.append(call(c['id'], 'm10+p5' if c.get('type') == 'stylesheet' else 'ul>li+a+img+!'))
        scen('cross-type-syntax-names/%s' % order[0], _w(cross), steps)

    # 1b. the same abbreviation under configs that differ in ONE thing (memos keyed by the
    #     abbreviation, by a snippet name, or by part of the configuration)
    variants = [
        {}, {'syntax': 'jsx'}, {'options': {'jsx.enabled': True}}, {'options': {'markup.href': False}}, {'text': ['w1', 'w2']},
        {'text': 'http://emmet.io'}, {'variables': {'lang': 'xx', 'charset': 'yy'}}, {'maxRepeat': 2}, {'options': {'bem.enabled': True}},
        {'syntax': 'pug'}, {'syntax': 'xsl'}, {'snippets': {'foo': 'section.v1', 'a': 'a.v1[href]'}}, {'snippets': {'foo': 'article.v2>p', 'a': 'a.v2'}},
        {'context': {'name': 'ul'}}, {'options': {'output.selfClosingStyle': 'xhtml', 'output.attributeQuotes': 'single'}},
        {'options': {'output.reverseAttributes': True}}, {'options': {'comment.enabled': True}}, {'options': {'inlineElements': []}},
    ]
    same = ['ul>li*4>a', 'foo+a', '.x>.-y_z', 'div.{a}+..b', '!', 'img+br', 'a', 'label>input', '[title]+p>span*3', 'html[lang=${lang}]{${charset}}',
            'xsl:variable[name=a select=b]>p', 'p>lorem3']
    cfgs = [dict(v, id='c%d' % i, holder=('Config' if i % 3 == 2 else 'dict')) for i, v in enumerate(variants)]
    for a in same:
        steps = [call(c['id'], a) for c in cfgs] + [call(c['id'], a) for c in reversed(cfgs)]
        scen('same-abbreviation-across-configs/%s' % a, _w(cfgs), steps)
    # ... and the same family again with ONE cache dict handed to every config (a markup call gets it too)
    mcfgs = [dict(c, cache='k0') for c in cfgs]
    for c in mcfgs:
        c.setdefault('snippets', {})
        c['snippets'] = dict(c['snippets'], au='p{(c) ${lang} ${charset}}', rp='ul>li.i$*4')
    for a in same + ['doc', 'html:xt', 'au', 'rp', 'au+rp+!']:
        steps = [call(c['id'], a) for c in mcfgs] + [call(c['id'], a) for c in reversed(mcfgs)]
        scen('same-abbreviation-across-configs-sharing-a-cache/%s' % a, _w(mcfgs, caches=['k0']), steps)
    svariants = [
        {}, {'options': {'stylesheet.intUnit': 'pt'}}, {'options': {'stylesheet.unitless': []}}, {'options': {'stylesheet.fuzzySearchMinScore': 0.6}},
        {'context': {'name': '@@section'}}, {'context': {'name': 'margin'}}, {'options': {'stylesheet.json': True}}, {'syntax': 'stylus'},
        {'snippets': {'kmar': 'margin:10', 'zidx': 'z-index:5'}}, {'snippets': {'kmar': 'margin:20 30', 'zidx': 'z-index:auto|7'}},
        {'options': {'stylesheet.shortHex': False}}, {'options': {'stylesheet.keywords': ['auto']}}, {'options': {'stylesheet.unitAliases': {'p': 'pt'}}},
        {'options': {'stylesheet.skipUnmatched': False}},
    ]
    ssame = ['m10', 'kmar', 'zidx+zom', 'c#fc0', 'm:a', 'w10p', 'foo', 'bd1-s', 'a', 'trf-s(2)', 'p!', 'lh1.5+op.5']
    scfgs = [dict(v, id='c%d' % i, type='stylesheet', holder=('Config' if i % 3 == 2 else 'dict')) for i, v in enumerate(svariants)]
    for a in ssame:
        steps = [call(c['id'], a) for c in scfgs] + [call(c['id'], a) for c in reversed(scfgs)]
        scen('same-stylesheet-abbreviation-across-configs/%s' % a, _w(scfgs), steps)

    # 1b''. the same stylesheet abbreviation under option sets that share ONE cache (and one snippet table)
    cvariants = [v for v in svariants if 'snippets' not in v]
    ccfgs = [dict(v, id='c%d' % i, type='stylesheet', cache='k0', snippets=STYLE_SN, holder=('Config' if i % 3 == 2 else 'dict'))
             for i, v in enumerate(cvariants)]
    for a in ssame + ['cola', 'brand', 'kdis', 'fna', 'gtx', 'stra', 'brand+cola', 'kdis-b+fna-r']:
        steps = [call(c['id'], a) for c in ccfgs] + [call(c['id'], a) for c in reversed(ccfgs)]
        scen('same-stylesheet-abbreviation-across-option-sets-sharing-a-cache/%s' % a, _w(ccfgs, caches=['k0']), steps)

    # 1b'. the same TEXT under configs of different type / context that share one cache dict
    #      (valid in one reading, malformed in the other)
    share = [{'id': 'c0', 'holder': 'dict', 'cache': 'k0'}, {'id': 'c1', 'holder': 'dict', 'type': 'stylesheet', 'cache': 'k0'},
             {'id': 'c2', 'holder': 'dict', 'type': 'stylesheet', 'cache': 'k0', 'context': {'name': 'border'}},
             {'id': 'c3', 'holder': 'Config', 'syntax': 'pug', 'cache': 'k0'}, {'id': 'c4', 'holder': 'Config', 'type': 'stylesheet', 'syntax': 'sass', 'cache': 'k0'}]
    texts = ['p10%', 'a[href]', '1px solid', 'm10', 'div', 'ul>li*2', 'c#f', 'm10+p5', 'a', 'p', 'bd1-s', 'p{x}', 'lg(#f, #0)', 'd:n', 'h1']
    for grp in (texts[:5], texts[5:10], texts[10:]):
        steps = []
        for tx in grp:
            for c in ('c0', 'c1', 'c2', 'c3', 'c4', 'c0', 'c1'):
                steps.append(call(c, tx))
        scen('same-text-across-types-sharing-a-cache/%s' % grp[0], _w(share, caches=['k0']), steps)

    # 1c. completing the VALUE of a property between two property-level looks (one cache, and none)
    for cache in ('k0', None):
        for prop_name in sorted(ga.VALUE_CONTEXTS):
            values, probes = ga.VALUE_CONTEXTS[prop_name]
            plain = {'id': 'c0', 'holder': 'dict', 'type': 'stylesheet', 'snippets': STYLE_SN}
            ctx = {'id': 'c1', 'holder': 'dict', 'type': 'stylesheet', 'snippets': STYLE_SN, 'context': {'name': prop_name}}
            held = {'id': 'c2', 'holder': 'Config', 'type': 'stylesheet', 'snippets': STYLE_SN}
            if cache:
                for c in (plain, ctx, held):
                    c['cache'] = cache
            steps = [call('c0', probes[0])]
            for v in values:
                steps.append(call('c1', v))
            for pr in probes:
                steps.append(call('c0', pr))
                steps.append(call('c2', pr))
            steps.append(call('c1', values[0]))
            scen('value-context/%s/%s' % (prop_name, cache), _w([plain, ctx, held], caches=['k0'] if cache else []), steps)

    # 2. host edits between two looks
    def edit(cfg, path, value=None, inplace=True, delete=False):
        op = {'op': 'edit_cfg', 'cfg': cfg, 'path': path, 'inplace': inplace}
        if delete:
            op['delete'] = True
        else:
            op['value'] = value
        return op

    bem = {'id': 'c0', 'holder': 'dict', 'options': {'bem.enabled': True}, 'context': {'name': 'div', 'attributes': {'class': 'bl'}}}
    for holder in ('dict', 'Config', 'dict+cache', 'Config+cache'):
        b = dict(bem, holder=holder.split('+')[0])
        if '+cache' in holder:
            b['cache'] = 'k0'
        scen('bem-context-attributes-in-place/%s' % holder, _w([b], caches=['k0'] if '+cache' in holder else []),
             [call('c0', '.-e+.-f_m'), edit('c0', ['context', 'attributes'], {'class': 'nav'}), call('c0', '.-e'),
              edit('c0', ['context', 'attributes'], {'class': 'bl'}), call('c0', '.-e+.-f_m'),
              edit('c0', ['context'], {'name': 'ul', 'attributes': {'class': 'menu'}}, inplace=False), call('c0', '.-item*2'),
              edit('c0', ['context', 'name'], 'table'), call('c0', '.-row')])
    st = {'id': 'c0', 'holder': 'dict', 'type': 'stylesheet', 'snippets': STYLE_SN}
    for cache in (None, 'k0'):
        for holder in ('dict', 'Config'):
            c = dict(st, holder=holder)
            if cache:
                c['cache'] = cache
            scen('stylesheet-options-in-place/%s/%s' % (holder, cache), _w([c], caches=['k0'] if cache else []),
                 [call('c0', 'm10+kmar+zom'), edit('c0', ['options', 'stylesheet.intUnit'], 'pt'), call('c0', 'm10+kmar+zom'),
                  edit('c0', ['options', 'stylesheet.unitless'], []), call('c0', 'zom+klh+zidx'),
                  edit('c0', ['options', 'stylesheet.unitless'], None, delete=True), call('c0', 'zom+klh+zidx'),
                  edit('c0', ['options', 'stylesheet.intUnit'], None, delete=True), call('c0', 'm10+kmar+zom'),
                  edit('c0', ['options', 'stylesheet.unitAliases'], {'p': 'pt', 'r': 'vw'}), call('c0', 'w10p+h5r+kwid'),
                  edit('c0', ['options', 'stylesheet.unitAliases'], None, delete=True), call('c0', 'w10p+h5r+kwid'),
                  edit('c0', ['context'], {'name': '@@section'}, inplace=False), call('c0', 'm+rawa'),
                  edit('c0', ['context', 'name'], '@@property'), call('c0', 'm+rawa'),
                  edit('c0', ['context', 'name'], 'margin'), call('c0', 'a+10'),
                  edit('c0', ['context'], None, delete=True), call('c0', 'm+rawa+m10'),
                  call('c0', 'trf-s(2)'), call('c0', 'trf-s'), call('c0', 'trf-t(17.25, 2, 33.75)'), call('c0', 'trf-t(9)'),
                  call('c0', 'bg:ov+bd-q')])
    # the host edits the SNIPPETS of a stylesheet config it keeps using: without a cache of its own, and with one it
    # clears whenever it edits (assumption A1); and it reloads global stylesheet snippets between calls
    for holder in ('dict', 'Config'):
        for cache in (None, 'k0'):
            c = dict(st, holder=holder, snippets=dict(STYLE_SN))
            if cache:
                c['cache'] = cache
            clr = [{'op': 'clear_cache', 'cache': 'k0'}] if cache else []
            scen('stylesheet-snippets-edited/%s/%s' % (holder, cache), _w([c], caches=['k0'] if cache else []),
                 [call('c0', 'kmar+zidx+m10')] + clr + [edit('c0', ['snippets', 'kmar'], 'margin:20 30')] + clr + [call('c0', 'kmar+zidx+m10')] +
                 clr + [edit('c0', ['snippets', 'kmar'], 'margin-left:1', inplace=False), edit('c0', ['snippets', 'newsn'], 'new-prop:7', inplace=False)] + clr + [call('c0', 'kmar+newsn+zidx'), call('c0', 'm10')] +
                 clr + [edit('c0', ['snippets', 'm'], 'margin-x:${1:0}')] + clr + [call('c0', 'm10+m'), call('c0', 'kmar')] +
                 clr + [edit('c0', ['snippets', 'm'], None, delete=True)] + clr + [call('c0', 'm10+m'), call('c0', 'newsn+kmar')] +
                 clr + [edit('c0', ['syntax'], 'sass')] + clr + [call('c0', 'm10+kmar')])
    gs1 = {'stylesheet': {'snippets': {'gsn': 'global-one:1', 'm': 'margin-g1'}}, 'css': {'snippets': {'csn': 'css-one:1'}}}
    gs2 = {'stylesheet': {'snippets': {'gsn': 'global-two:2'}}, 'css': {'snippets': {'csn': 'css-two:2', 'p': 'padding-g2'}}}
    scen('stylesheet-global-snippets-reloaded', _w([{'id': 'c0', 'holder': 'dict', 'type': 'stylesheet', 'global': 'g0'},
                                                    {'id': 'c1', 'holder': 'Config', 'type': 'stylesheet', 'global': 'g0'},
                                                    {'id': 'c2', 'holder': 'dict', 'type': 'stylesheet'}], globals_={'g0': gs1}),
         [call('c0', 'gsn+csn+m10+p5'), call('c1', 'gsn+csn+m10+p5'), call('c2', 'gsn+csn+m10+p5'), {'op': 'set_global', 'global': 'g0', 'layer': gs2},
          call('c0', 'gsn+csn+m10+p5'), call('c1', 'gsn+csn+m10+p5'), {'op': 'rebuild_cfg', 'cfg': 'c1'}, call('c1', 'gsn+csn+m10+p5'), call('c2', 'gsn+csn+m10+p5'),
          {'op': 'set_global', 'global': 'g0', 'layer': {}}, call('c0', 'gsn+csn+m10+p5'), {'op': 'rebuild_cfg', 'cfg': 'c1'}, call('c1', 'gsn+csn+m10+p5'),
          {'op': 'set_global', 'global': 'g0', 'layer': gs1}, call('c0', 'gsn+csn+m10+p5'), call('c2', 'gsn+csn+m10+p5')])
    mk = {'id': 'c0', 'holder': 'dict', 'snippets': dict(USER_SN), 'variables': {'lang': 'fr'}, 'text': ['one', 'two']}
    for holder in ('dict', 'Config', 'dict+cache', 'Config+cache'):
        c = dict(mk, holder=holder.split('+')[0])
        if '+cache' in holder:
            c['cache'] = 'k0'
        scen('markup-layers-in-place/%s' % holder, _w([c], caches=['k0'] if '+cache' in holder else []),
             [call('c0', 'foo+ul>li*'), edit('c0', ['snippets', 'foo'], 'section.redefined'), call('c0', 'foo+ali'),
              edit('c0', ['snippets', 'foo'], None, delete=True), call('c0', 'foo+ali'),
              edit('c0', ['variables', 'lang'], 'de'), call('c0', 'html[lang=${lang}]+!'),
              edit('c0', ['text'], ['three']), call('c0', 'ul>li*'), edit('c0', ['text'], None, delete=True), call('c0', 'ul>li*'),
              edit('c0', ['maxRepeat'], 2), call('c0', 'ul>li*5'), edit('c0', ['maxRepeat'], None, delete=True), call('c0', 'ul>li*5'),
              edit('c0', ['syntax'], 'pug'), call('c0', '!+ul>li*2'), edit('c0', ['syntax'], 'jsx'), call('c0', '.a+..b'),
              edit('c0', ['syntax'], None, delete=True), call('c0', '.a+..b+!'),
              edit('c0', ['options', 'output.indent'], '  '), call('c0', 'div>p>span'),
              edit('c0', ['options', 'markup.attributes'], {'class': 'klass'}), call('c0', '.a'),
              edit('c0', ['options', 'markup.attributes'], None, delete=True), call('c0', '.a'),
              edit('c0', ['options', 'inlineElements'], ['div']), call('c0', 'p>div+span'),
              edit('c0', ['options', 'inlineElements'], None, delete=True), call('c0', 'p>div+span')])
    # 3. settings reload, clones, rebuilds, cache clearing, host writes into a resolved Config
    g1 = {'markup': {'options': {'output.indent': '  '}, 'snippets': {'gs': 'div.g1'}}, 'jsx': {'options': {'markup.attributes': {'class': 'k1'}}}}
    g2 = {'markup': {'options': {'output.selfClosingStyle': 'xml'}, 'snippets': {'gs': 'div.g2', 'a': 'a.g2'}}, 'html': {'variables': {'lang': 'g2'}}}
    scen('global-reload', _w([{'id': 'c0', 'holder': 'dict', 'global': 'g0'}, {'id': 'c1', 'holder': 'Config', 'global': 'g0'},
                              {'id': 'c2', 'holder': 'dict', 'syntax': 'jsx', 'global': 'g0'}], globals_={'g0': g1}),
         [call('c0', 'gs>a+br'), call('c1', 'gs>a+br'), call('c2', '.x+gs'), {'op': 'set_global', 'global': 'g0', 'layer': g2},
          call('c0', 'gs>a+br+!'), call('c1', 'gs>a+br'), dict(call('c1', 'gs>a+br'), pass_global=True), call('c1', 'gs>a+br'),
          call('c2', '.x+gs'), {'op': 'rebuild_cfg', 'cfg': 'c1'}, call('c1', 'gs>a+br+!'),
          {'op': 'set_global', 'global': 'g0', 'layer': {}}, call('c0', 'gs>a+br+!'), call('c2', '.x+gs'),
          dict(call('c1', 'gs>a'), pass_global=True), call('c1', 'gs>a'),
          {'op': 'set_global', 'global': 'g0', 'layer': g1}, dict(call('c1', 'gs>a+br'), pass_global=True), call('c1', 'gs>a+br+!')])
    scen('clone-and-edit', _w([{'id': 'c0', 'holder': 'dict', 'type': 'stylesheet', 'cache': 'k0', 'snippets': STYLE_SN,
                                'options': {'stylesheet.intUnit': 'rem'}}], caches=['k0']),
         [call('c0', 'kmar+m10'), {'op': 'clone_cfg', 'src': 'c0', 'dst': 'c0x', 'depth': 'shallow'},
          edit('c0x', ['options', 'stylesheet.intUnit'], None, inplace=False, delete=True), call('c0x', 'kmar+m10'), call('c0', 'kmar+m10'),
          {'op': 'clone_cfg', 'src': 'c0', 'dst': 'c0y', 'depth': 'deep'}, edit('c0y', ['options', 'stylesheet.intUnit'], 'pt'),
          call('c0y', 'kmar+m10'), call('c0', 'kmar+m10'), {'op': 'clear_cache', 'cache': 'k0'}, call('c0x', 'kmar+zom'), call('c0', 'kmar+zom')])
    for t, probe, pokes in (('markup', 'a+img+html[lang=${lang}]>p',
                             [('options', 'output.indent', '<pk>'), ('snippets', 'a', 'a.poked'), ('variables', 'lang', 'pk'),
                              ('options', 'output.selfClosingStyle', 'xml')]),
                            ('stylesheet', 'm10+m+zom',
                             [('options', 'stylesheet.intUnit', 'pk'), ('snippets', 'm', 'margin-poked:1'), ('options', 'stylesheet.after', '!;')])):
        for syn in ((None, 'jsx', 'pug', 'myml') if t == 'markup' else (None, 'sass', 'mycss')):
            base = {'type': t} if t == 'stylesheet' else {}
            if syn:
                base['syntax'] = syn
            steps = [call('c1', probe)]
            for sec, key, val in pokes:
                steps.append({'op': 'poke_cfg', 'cfg': 'c0', 'section': sec, 'key': key, 'value': val})
                steps.append(call('c1', probe))
                steps.append(call('c2', probe))
            steps.append({'op': 'rebuild_cfg', 'cfg': 'c0'})
            steps.append(call('c0', probe))
            scen('host-writes-into-resolved-Config/%s/%s' % (t, syn),
                 _w([dict(base, id='c0', holder='Config'), dict(base, id='c1', holder='dict'), dict(base, id='c2', holder='Config')]), steps)
    # 3b. natural failures in every stage, each followed by looks at state the stage may have left behind
    mfail = ['ul>li*3>a[title=${nope}]', 'ol>li*4>{$#}', 'p{${1:foo', 'a[title="${1', 'a[href=${1', 'div>(p', 'a"', 'ul>li*2>a)', 'div{${x', 'p>(a+b',
             '(a>b)*3>c[d="e]', 'ul>.item$*4>{${undefined}}', 'div*2>p*3>{$#}', 'a[b=c d="e', 'x{y}}>z[', 'lorem3*2>{$#}']
    mprobe = ['li.item$@-', 'h$@3+p.c$$', 'ul>li.item*2>a', 'a+img', '!', 'p{a ${1:b}}+q[t]', '.x>.-y', 'ul>li*']
    sfail = ['m10 p10', 'foo(!)', 'p${1', 'p10)', 'd:b;', 'm10+', 'c#zz(', "cnt:'x", 'lg(#f', 'm(1', '@kf)']
    sprobe = ['m10', 'bd', 'zom+p5', 'c#f', 'kmar+klh', 'trf-s', '@kf', 'm:a']
    for holder in ('dict', 'Config'):
        c0 = {'id': 'c0', 'holder': holder, 'text': ['t1', 't2'], 'snippets': dict(USER_SN), 'options': {'bem.enabled': True}}
        c1 = {'id': 'c1', 'holder': 'dict'}
        for grp in (mfail[:6], mfail[6:11], mfail[11:]):
            steps = []
            for f in grp:
                steps.append(dict(call('c0', f), nat='F1'))
                for pr in mprobe:
                    steps.append(call('c0', pr))
                    steps.append(call('c1', pr))
            scen('failure-then-looks/markup/%s/%s' % (holder, grp[0]), _w([c0, c1]), steps)
        s0 = {'id': 'c0', 'holder': holder, 'type': 'stylesheet', 'cache': 'k0', 'snippets': STYLE_SN}
        s1 = {'id': 'c1', 'holder': 'dict', 'type': 'stylesheet'}
        s2 = {'id': 'c2', 'holder': 'dict', 'type': 'stylesheet', 'cache': 'k0', 'snippets': STYLE_SN, 'options': {'stylesheet.intUnit': 'pt'}}
        steps = []
        for f in sfail:
            steps.append(dict(call('c0', f), nat='F1'))
            for pr in sprobe:
                steps.append(call('c0', pr))
                steps.append(call('c1', pr))
                steps.append(call('c2', pr))
        scen('failure-then-looks/stylesheet/%s' % holder, _w([s0, s1, s2], caches=['k0']), steps)

    # 3b'. the host changes the CONTENTS of list- / dict-valued options it keeps in its settings, in place
    def deep(cfg, key, value):
        return {'op': 'edit_cfg', 'cfg': cfg, 'path': ['options', key], 'value': value, 'inplace': True, 'deep': True}

    for holder in ('dict', 'Config'):
        c = {'id': 'c0', 'holder': holder, 'options': {'inlineElements': ['span', 'em'], 'output.booleanAttributes': ['disabled'], 'output.formatSkip': ['html'],
                                                         'output.formatForce': ['body'], 'comment.enabled': True, 'comment.trigger': ['id', 'class'],
                                                         'markup.attributes': {'class': 'klass'}, 'markup.valuePrefix': {'class': 'pfx'}}}
        o = {'id': 'c1', 'holder': 'dict'}
        pr = 'div#a.b>span+em+p[disabled foo]+body>html>p'
        steps = [call('c0', pr), call('c1', pr)]
        for key, v in (('inlineElements', ['span', 'em', 'p']), ('inlineElements', ['em']), ('inlineElements', []), ('output.booleanAttributes', ['disabled', 'foo']),
                       ('output.booleanAttributes', ['foo']), ('output.formatSkip', ['html', 'div']), ('output.formatSkip', []), ('output.formatForce', ['body', 'p']),
                       ('output.formatForce', []), ('comment.trigger', ['id']), ('comment.trigger', ['class', 'disabled']), ('markup.attributes', {'class': 'k2', 'foo': 'bar'}),
                       ('markup.attributes', {}), ('markup.valuePrefix', {'class': 'p2'}), ('inlineElements', ['span', 'em'])):
            steps += [deep('c0', key, v), call('c0', pr), call('c1', pr), call('c0', pr)]   # (the last look precedes the next edit: one-slot memos)
        scen('option-lists-changed-in-place/markup/%s' % holder, _w([c, o]), steps)
        c = {'id': 'c0', 'holder': holder, 'type': 'stylesheet', 'options': {'stylesheet.keywords': ['auto', 'inherit'], 'stylesheet.unitless': ['z-index', 'zoom'],
                                                                              'stylesheet.unitAliases': {'p': '%', 'e': 'em'}}}
        o = {'id': 'c1', 'holder': 'dict', 'type': 'stylesheet'}
        pr = 'm:a+z10+zom2+w10p+h5e+lh2+p:i'
        steps = [call('c0', pr), call('c1', pr)]
        for key, v in (('stylesheet.keywords', ['auto']), ('stylesheet.keywords', []), ('stylesheet.keywords', ['inherit', 'auto', 'all']), ('stylesheet.unitless', ['zoom']),
                       ('stylesheet.unitless', []), ('stylesheet.unitless', ['z-index', 'zoom', 'line-height']), ('stylesheet.unitAliases', {'p': 'pt'}),
                       ('stylesheet.unitAliases', {}), ('stylesheet.unitAliases', {'p': '%', 'e': 'ex', 'x': 'vw'})):
            steps += [deep('c0', key, v), call('c0', pr), call('c1', pr), call('c0', pr)]   # (the last look precedes the next edit: one-slot memos)
        scen('option-lists-changed-in-place/stylesheet/%s' % holder, _w([c, o]), steps)

    # 3c. option flip under failure: for every documented option / variable / snippet with a known visible effect
    #     (the witness triples of the C20 profile: key, two values, abbreviation), a call under one value fails at
    #     evenly spaced points (callee failure F5 in both placement modes and flavours, failing editor callback F3),
    #     and the same abbreviation is then looked at under the OTHER value and under the same one. Targets state
    #     that a call switches according to an option and switches back on success only.
    from .gen_c20 import WITNESSES
    import json as _json
    for wi, (t, sec, key, v1, v2, abbr, extra) in enumerate(WITNESSES):
        base = _json.loads(_json.dumps(extra))
        if t == 'stylesheet':
            base['type'] = t
        cfgs = []
        for i, v in enumerate((v1, v2)):
            c = _json.loads(_json.dumps(base))
            c.setdefault(sec, {})
            c[sec] = dict(c[sec], **{key: v})
            c.update({'id': 'c%d' % i, 'holder': 'dict' if (wi + i) % 3 else 'Config', 'peer': {'seed': 11 + i, 'style': 'textmate'}})
            cfgs.append(c)
        steps = [call('c0', abbr), call('c1', abbr)]
        faults = []
        for j in range(8):
            f = {'kind': 'F5', 'mode': 'nth', 'frac': round((j + 0.5) / 8, 4), 'frac2': 0.0}
            if j % 2:
                f['exc'] = 'base'
            faults.append(f)
        for j in range(6):
            f = {'kind': 'F5', 'mode': 'func', 'frac': round((j + 0.5) / 6, 4), 'frac2': (0.0, 0.999)[j % 2]}
            if j % 3 == 2:
                f['exc'] = 'base'
            faults.append(f)
        for j in range(4):
            f = {'kind': 'F3', 'frac': round(j / 4, 4)}
            if j % 2:
                f['exc'] = ('TypeError', 'RuntimeError')[(j // 2) % 2]
            faults.append(f)
        for a, b in (('c0', 'c1'), ('c1', 'c0')):
            for f in faults:
                steps.append(dict(call(a, abbr), fault=dict(f)))
                steps.append(dict(call(b, abbr), closing=True))
                steps.append(dict(call(a, abbr), closing=True))
        scen('option-flip-under-failure/%s/%s/%s' % (t, key, abbr), _w(cfgs), steps)

    # 3d. abbreviation shapes that no seeded run executed (found with the library-reach measure), each twice
    rm = [{'id': 'c0', 'holder': 'dict'}, {'id': 'c1', 'holder': 'Config', 'syntax': 'pug', 'text': ['w']}]
    scen('reach-corpus/markup', _w(rm), [call(c, a) for a in ga.REACH_MARKUP for c in ('c0', 'c1', 'c0')])
    rs = [{'id': 'c0', 'holder': 'dict', 'type': 'stylesheet', 'cache': 'k0', 'snippets': STYLE_SN},
          {'id': 'c1', 'holder': 'Config', 'type': 'stylesheet', 'syntax': 'sass', 'cache': 'k0', 'snippets': STYLE_SN, 'options': {'stylesheet.shortHex': False}}]
    scen('reach-corpus/stylesheet', _w(rs, caches=['k0']), [call(c, a) for a in ga.REACH_STYLESHEET for c in ('c0', 'c1', 'c0')])

    # 3e. nothing of a failed call stays alive once the caller let go of the exception (census only)
    fc_m = [('p[title=${', None), ('a)', None), ('ul>li*2>a"', None), ('div>(p', None), ('ol>li*4>{$#}', None), ('ul>li*3>a[title=${nope}]', None),
            ('ul>bad', None), ('ul>li.i$*3>a{t}', {'kind': 'F3', 'k': 4}), ('ul>li.i$*3>a{t}', {'kind': 'F3', 'k': 9, 'exc': 'TypeError'}),
            ('div.b>p.-e*2>foo', {'kind': 'F5', 'mode': 'nth', 'n': 40}), ('div.b>p.-e*2>foo', {'kind': 'F5', 'mode': 'nth', 'n': 400}),
            ('div.b>p.-e*2>foo', {'kind': 'F5', 'mode': 'nth', 'n': 900, 'exc': 'base'}), ('div.b>p.-e*2>foo', {'kind': 'F5', 'mode': 'nth', 'n': 1500})]
    for holder in ('dict', 'Config'):
        c = {'id': 'c0', 'holder': holder, 'text': ['t1', 't2'], 'snippets': dict(USER_SN, bad='a"'), 'options': {'bem.enabled': True},
             'peer': {'seed': 6, 'style': 'textmate'}}
        scen('nothing-kept-after-failure/markup/%s' % holder, _w([c]),
             [dict({'op': 'fail_census', 'cfg': 'c0', 'ok': 'ul>li*2>a', 'bad': b}, **({'fault': f} if f else {})) for b, f in fc_m])
    fc_s = [('m10 p10', None), ('foo(!)', None), ('p${1', None), ('animic', None), ('lg(#f', None), ('badsn', None),
            ('m10+kmar+c#f', {'kind': 'F3', 'k': 3}), ('m10+kmar+c#f', {'kind': 'F5', 'mode': 'nth', 'n': 60}),
            ('m10+kmar+c#f', {'kind': 'F5', 'mode': 'nth', 'n': 700}), ('m10+kmar+c#f', {'kind': 'F5', 'mode': 'nth', 'n': 1400, 'exc': 'base'})]
    for holder in ('dict', 'Config'):
        c = {'id': 'c0', 'holder': holder, 'type': 'stylesheet', 'cache': 'k0', 'snippets': dict(STYLE_SN), 'peer': {'seed': 8, 'style': 'identity'}}
        scen('nothing-kept-after-failure/stylesheet/%s' % holder, _w([c], caches=['k0']),
             [dict({'op': 'fail_census', 'cfg': 'c0', 'ok': 'm10+zom', 'bad': b}, **({'fault': f} if f else {})) for b, f in fc_s])

    # 4. unbounded growth with distinct inputs (census only, no references)
    scen('distinct-inputs/markup-html', _w([{'id': 'c0', 'holder': 'dict', 'options': {'bem.enabled': True, 'comment.enabled': True}}]),
         [{'op': 'soak_distinct', 'cfg': 'c0'}])
    scen('distinct-inputs/markup-pug-held', _w([{'id': 'c0', 'holder': 'Config', 'syntax': 'pug', 'text': ['w'], 'snippets': dict(USER_SN)}]),
         [{'op': 'soak_distinct', 'cfg': 'c0'}])
    scen('distinct-inputs/stylesheet-cached', _w([{'id': 'c0', 'holder': 'dict', 'type': 'stylesheet', 'cache': 'k0', 'snippets': STYLE_SN}], caches=['k0']),
         [{'op': 'soak_distinct', 'cfg': 'c0'}])
    # ... and a host that builds a fresh config with fresh callback objects for every call
    scen('distinct-inputs/fresh-config-per-call/markup', _w([{'id': 'c0', 'holder': 'dict', 'peer': {'seed': 2, 'style': 'textmate'},
                                                               'options': {'bem.enabled': True}, 'text': ['w1', 'w2'], 'snippets': dict(USER_SN)}]),
         [{'op': 'soak_distinct', 'cfg': 'c0', 'fresh_cfg': True}])
    scen('distinct-inputs/fresh-Config-per-call/stylesheet', _w([{'id': 'c0', 'holder': 'Config', 'type': 'stylesheet', 'peer': {'seed': 4, 'style': 'identity'},
                                                                  'cache': 'k0', 'snippets': {'kmar': 'margin:10'}}], caches=['k0']),
         [{'op': 'soak_distinct', 'cfg': 'c0', 'fresh_cfg': True, 'warm': 100, 'seg': 500}])
    return out


# ---------------------------------------------------------------------------
# exhaustive placement: a failure at EVERY library function entry of a call

XH_CHUNK = 60
# size of the deterministic prefix when the seeded changes R11..X66 were evaluated: seeded history number k of a batch
# keeps the seed of run index LEGACY + k
LEGACY_SWEEP_SIZE = {'quick': 495, 'thorough': 4529}


def xh_shapes():
    """[(name, world, warm-up calls, faulted call, probes, cap, tiers, tail)]: call shapes whose every function entry
    n = 1..cap receives fault F5 once (cap = entries measured on the pinned tree x 1.25 + one chunk; a placement beyond
    the real number of entries does not fire and leaves an ordinary, compared call). `tail`: for the 70 000-entry
    cache-filling calls only the first and last entries are walked one by one, the middle with a stride."""
    by = dict((n, (w, c, p)) for n, w, c, p, _k in shapes())
    out = []

    def add(name, cap, tiers, warm=(), world=None, call=None, probes=None, tail=None):
        if world is None:
            world, call, probes = by[name]
        out.append((name, world, list(warm), call, probes, cap, tiers, tail))

    txt = ['foo', 'bar']
    for holder in ('dict', 'Config'):
        add('text-window/%s' % holder, 2940, 'quick thorough' if holder == 'dict' else 'thorough',
            world=_w([{'id': 'c0', 'holder': holder, 'text': txt, 'snippets': USER_SN}]),
            call=('c0', 'ul>li*>foo'), probes=[('c0', 'ul>li*'), ('c0', 'a')])
    add('bem+context', 1980, 'quick thorough')
    add('pug+text', 1260, 'quick thorough')
    add('jsx+global', 2640, 'quick thorough')
    add('lorem+text', 1200, 'quick thorough')
    sw = _w([{'id': 'c0', 'holder': 'dict', 'type': 'stylesheet', 'cache': 'k0', 'snippets': STYLE_SN},
             {'id': 'c1', 'holder': 'dict', 'type': 'stylesheet', 'cache': 'k0', 'snippets': STYLE_SN,
              'options': {'stylesheet.unitless': [], 'stylesheet.intUnit': 'pt'}}], caches=['k0'])
    add('cache-warm-small', 2100, 'quick thorough', warm=[('c0', 'm10')], world=sw, call=('c0', 'kmar+zom+klh'),
        probes=[('c1', 'kmar+zom+klh'), ('c0', 'kwid+zidx')])
    for name, cap in (('value-scope+peer', 660), ('css-in-js+raw-snippets', 1500), ('cache-warm/int-unit', 2640)):
        w, c, p = by[name]
        add(name + '/warm', cap, 'quick thorough' if cap < 2000 else 'thorough', warm=[c], world=w, call=c, probes=p)
    add('text+snippets+bem/dict', 7380, 'thorough')
    add('text+snippets/held-Config', 6300, 'thorough')
    add('text+alias-chain', 11040, 'thorough')
    add('text+peer/held-Config', 4080, 'thorough')
    add('bare-expand', 3180, 'thorough')
    add('deep-nesting+text+bem', 24420, 'thorough')
    add('nested-groups+text', 7500, 'thorough')
    add('cache-fill/unitless', None, 'thorough', tail=(3000, 4020, 20))
    add('dependent-longhands/no-cache', None, 'thorough', tail=(1200, 3000, 50))
    return out


def xh_plan(tier):
    "[(shape index, [fault specs])]: one history per chunk of XH_CHUNK consecutive placements"
    out = []
    for xi, (name, world, warm, call, probes, cap, tiers, tail) in enumerate(xh_shapes()):
        if tier not in tiers.split():
            continue
        flavours = ('alt',) if tier == 'quick' else ('exc', 'base')
        points = []
        if tail is None:
            points = [{'n_abs': n} for n in range(1, cap + 1)]
        else:
            head, last, stride = tail
            points = [{'n_abs': n} for n in range(1, head + 1)]
            points += [{'n_frac': round(j / 4000.0, 6)} for j in range(0, 4000, stride)]
            points += [{'n_end': k} for k in range(last, -1, -1)]
        for fl in flavours:
            for a in range(0, len(points), XH_CHUNK):
                chunk = []
                for j, pt in enumerate(points[a:a + XH_CHUNK]):
                    f = dict(pt, kind='F5', mode='nth')
                    if fl == 'base' or (fl == 'alt' and (a + j) % 2):
                        f['exc'] = 'base'
                    chunk.append(f)
                out.append((xi, chunk, a + XH_CHUNK >= len(points) and tail is None))
    return out


def gen_xh(tier, k):
    import json
    global _xshapes
    if _xshapes is None:
        _xshapes = xh_shapes()
    xi, chunk, last = _xplans[tier][k]
    name, world, warm, call, probes, cap, tiers, tail = _xshapes[xi]
    ops = [{'op': 'call', 'cfg': c, 'abbr': a, 'pin': 1} for c, a in warm]
    for f in chunk:
        ops.append({'op': 'call', 'cfg': call[0], 'abbr': call[1], 'pin': 1, 'fault': dict(f), 'xh': [name, bool(last)]})
        for cfg, abbr in probes:
            ops.append({'op': 'call', 'cfg': cfg, 'abbr': abbr, 'pin': 2, 'closing': True})
    ops.append({'op': 'repeat3', 'cfg': probes[0][0], 'abbr': probes[0][1], 'pin': 3})
    return {'world': json.loads(json.dumps(world)), 'ops': ops, 'meta': {'exhaustive': name, 'placements': len(chunk)}}


_plans = {}
_xplans = {}
_shapes = None
_xshapes = None
_scen = None


def sweep_size(tier):
    global _scen
    if tier not in _plans:
        _plans[tier] = plan(tier)
    if _scen is None:
        _scen = scenarios()
    if tier not in _xplans:
        _xplans[tier] = xh_plan(tier)
    return len(_plans[tier]) + len(_scen) + len(_xplans[tier])


def xh_size(tier):
    sweep_size(tier)
    return len(_xplans[tier]), sum(len(c) for _x, c, _l in _xplans[tier])


def gen_sweep(tier, index):
    global _shapes, _scen
    if tier not in _plans:
        _plans[tier] = plan(tier)
    if _scen is None:
        _scen = scenarios()
    if tier not in _xplans:
        _xplans[tier] = xh_plan(tier)
    if index >= len(_plans[tier]) + len(_scen):
        return gen_xh(tier, index - len(_plans[tier]) - len(_scen))
    if index >= len(_plans[tier]):
        import json
        return json.loads(json.dumps(_scen[index - len(_plans[tier])]))
    if _shapes is None:
        _shapes = shapes()
    si, fault = _plans[tier][index]
    name, world, call, probes, kinds = _shapes[si]
    ops = []
    if 'warm' in kinds.split():
        # fill the cache first, so that the fault lands in the part of the call that runs on a hit
        ops.append({'op': 'call', 'cfg': call[0], 'abbr': call[1], 'pin': 1})
    ops.append({'op': 'call', 'cfg': call[0], 'abbr': call[1], 'pin': 1, 'fault': dict(fault)})
    for cfg, abbr in probes:
        ops.append({'op': 'call', 'cfg': cfg, 'abbr': abbr, 'pin': 2, 'closing': True})
    if index % 7 == 0:
        ops.append({'op': 'repeat3', 'cfg': probes[0][0], 'abbr': probes[0][1], 'pin': 3})
    import json
    return {'world': json.loads(json.dumps(world)), 'ops': ops, 'meta': {'sweep': name}}
