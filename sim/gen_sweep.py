"""Systematic fault sweep for C08 (the deterministic part of the search).

Random histories place faults at seeded positions; the sweep walks a fixed set of
call shapes that keep state in flight (wrap text removed, cache being filled,
BEM memo, held Config, peer mid-format, alias chains) and moves one fault
through each of them in M evenly spaced steps per placement mode:

  F5 nth   : entry 1 + floor(j/M * N) of the N library function entries of the call
  F5 func  : function number floor(j/M * F) of the F distinct functions, first/middle/last entry
  F4       : recursion budgets 5 .. 400
  F3       : peer invocation 1 + floor(j/M * P)

followed by state-revealing probes on the same objects. A sweep history is a
pure function of (tier, index); no seed is involved.
"""
from . import gen_abbr as ga

USER_SN = {k: ga.MARKUP_USER_SNIPPETS[k] for k in ('foo', 'repeat', 'link', 'fld', 'grp', 'ali', 'rep', 'bemb')}
STYLE_SN = {k: ga.STYLESHEET_USER_SNIPPETS[k] for k in ('kmar', 'kpad', 'klh', 'kwid', 'kmm', 'zidx', 'rawa', 'bgbm', 'bdst')}


def _w(configs, caches=(), globals_=None):
    return {'configs': {c['id']: c for c in configs}, 'caches': list(caches), 'globals': globals_ or {}}


def shapes():
    "[(name, world, faulted call (cfg, abbr), probes [(cfg, abbr)], kinds)]"
    out = []
    txt = ['foo', 'bar', 'http://emmet.io']
    out.append(('text+snippets+bem/dict',
                _w([{'id': 'c0', 'holder': 'dict', 'text': txt, 'snippets': USER_SN, 'options': {'bem.enabled': True}}]),
                ('c0', 'ul.nav>li.-item$*>foo+a.-link'), [('c0', 'ul>li*'), ('c0', 'a')], 'F5 F4'))
    out.append(('text+snippets/held-Config',
                _w([{'id': 'c0', 'holder': 'Config', 'text': txt, 'snippets': USER_SN}]),
                ('c0', 'div>grp>repeat+link:css'), [('c0', 'ul>.item$*'), ('c0', 'img[src="$#"]*')], 'F5 F4'))
    chain = dict(USER_SN)
    chain.update(ga.alias_chain(25))
    out.append(('text+alias-chain',
                _w([{'id': 'c0', 'holder': 'dict', 'text': 'wrapped', 'snippets': chain}]),
                ('c0', 'div>al0*2'), [('c0', 'p'), ('c0', 'ul>li*')], 'F5 F4'))
    out.append(('text+peer/held-Config',
                _w([{'id': 'c0', 'holder': 'Config', 'text': txt, 'peer': {'seed': 7, 'style': 'textmate'},
                     'options': {'output.newline': '\r\n', 'comment.enabled': True}}]),
                ('c0', 'ul#m.x>.item$*>a[title]'), [('c0', 'ul>li*'), ('c0', 'div#a>p*')], 'F5 F3'))
    out.append(('bem+context',
                _w([{'id': 'c0', 'holder': 'dict', 'options': {'bem.enabled': True},
                     'context': {'name': 'div', 'attributes': {'class': 'blk blk_m'}}, 'text': ['t']}]),
                ('c0', '.-e_m>.--x+.b>.-f'), [('c0', '.-e'), ('c0', 'ul>.-item*')], 'F5'))
    out.append(('pug+text', _w([{'id': 'c0', 'holder': 'dict', 'syntax': 'pug', 'text': ['a b', 'c\nd']}]),
                ('c0', 'ul>li*>span{x}'), [('c0', 'ul>li*'), ('c0', 'p')], 'F5'))
    out.append(('jsx+global',
                _w([{'id': 'c0', 'holder': 'dict', 'syntax': 'jsx', 'global': 'g0', 'text': 'T'}],
                   globals_={'g0': {'markup': {'snippets': {'gs': 'div.from-global'}, 'options': {'output.indent': '  '}},
                                    'jsx': {'options': {'output.selfClosingStyle': 'xhtml'}}}}),
                ('c0', 'Foo.Bar>gs+div..x+br'), [('c0', 'gs>p'), ('c0', 'br')], 'F5'))
    out.append(('lorem+text', _w([{'id': 'c0', 'holder': 'dict', 'text': ['l1', 'l2']}]),
                ('c0', 'ul>li*>lorem3'), [('c0', 'p*2>lorem2'), ('c0', 'ul>li*')], 'F5'))
    out.append(('deep-nesting+text+bem',
                _w([{'id': 'c0', 'holder': 'Config', 'text': 'deep', 'options': {'bem.enabled': True}}]),
                ('c0', '>'.join(['div.b%d' % i if i % 5 == 0 else 'p.-e' for i in range(45)])), [('c0', 'a'), ('c0', '.b>.-e')], 'F4'))
    out.append(('nested-groups+text', _w([{'id': 'c0', 'holder': 'dict', 'text': ['x', 'y']}]),
                ('c0', ga.gen_nested_groups(None, 25) if False else '(' * 25 + 'a>b' + ')' * 25), [('c0', 'ul>li*')], 'F4'))
    out.append(('bare-expand', _w([{'id': 'bare', 'holder': 'none'}, {'id': 'c0', 'holder': 'dict', 'text': ['z']}]),
                ('bare', 'ul>li.item$*3>a'), [('bare', 'ul>li*2'), ('c0', 'ul>li*')], 'F5'))
    # stylesheet
    out.append(('cache-fill/unitless',
                _w([{'id': 'c0', 'holder': 'dict', 'type': 'stylesheet', 'cache': 'k0', 'options': {'stylesheet.unitless': []}, 'snippets': STYLE_SN},
                    {'id': 'c1', 'holder': 'dict', 'type': 'stylesheet', 'cache': 'k0', 'snippets': STYLE_SN}], caches=['k0']),
                ('c0', 'zom+kmar+klh'), [('c1', 'zom+kmar+klh'), ('c0', 'kwid+zidx')], 'F5'))
    out.append(('cache-warm/int-unit',
                _w([{'id': 'c0', 'holder': 'Config', 'type': 'stylesheet', 'syntax': 'scss', 'cache': 'k0',
                     'options': {'stylesheet.intUnit': 'pt', 'stylesheet.unitAliases': {'p': 'pt'}}, 'snippets': STYLE_SN},
                    {'id': 'c1', 'holder': 'dict', 'type': 'stylesheet', 'syntax': 'sass', 'cache': 'k0', 'snippets': STYLE_SN}], caches=['k0']),
                ('c0', 'kmar+kwid+kmm+m10'), [('c1', 'kmar+kwid+kmm'), ('c0', 'kmar')], 'F5 warm'))
    out.append(('dependent-longhands/no-cache',
                _w([{'id': 'c0', 'holder': 'dict', 'type': 'stylesheet', 'snippets': STYLE_SN},
                    {'id': 'c1', 'holder': 'dict', 'type': 'stylesheet'}]),
                ('c0', 'bg:ov+bd-q'), [('c1', 'bg:ov+bd-q'), ('c1', 'bgmul')], 'F5 sparse'))
    out.append(('value-scope+peer',
                _w([{'id': 'c0', 'holder': 'dict', 'type': 'stylesheet', 'cache': 'k0', 'context': {'name': 'margin'},
                     'peer': {'seed': 3, 'style': 'double'}},
                    {'id': 'c1', 'holder': 'dict', 'type': 'stylesheet', 'cache': 'k0'}], caches=['k0']),
                ('c0', 'a+10+i'), [('c1', 'm10+zom'), ('c0', '5')], 'F5 F3 warm'))
    out.append(('css-in-js+raw-snippets',
                _w([{'id': 'c0', 'holder': 'Config', 'type': 'stylesheet', 'cache': 'k0', 'options': {'stylesheet.json': True},
                     'peer': {'seed': 9, 'style': 'marker'}}], caches=['k0']),
                ('c0', 'm10+@kf+bd1-s#fc0'), [('c0', 'zom+op.5'), ('c0', '@m')], 'F5 F3 warm'))
    return out


def plan(tier):
    "Deterministic list of sweep points for a tier"
    m = 10 if tier == 'quick' else 160
    pts = []
    for si, (name, world, call, probes, kinds) in enumerate(shapes()):
        kinds = kinds.split()
        sparse = 'sparse' in kinds or 'warm' in kinds
        if 'F5' in kinds:
            mm = max(4, m // 3) if (sparse and tier != 'quick') else m
            for j in range(mm):
                f = {'kind': 'F5', 'mode': 'nth', 'frac': round(j / mm, 6), 'frac2': 0.0}
                if j % 4 == 3:
                    f['exc'] = 'base'
                pts.append((si, f))
            for j in range(mm):
                f = {'kind': 'F5', 'mode': 'func', 'frac': round(j / mm, 6), 'frac2': (0.0, 0.5, 0.999)[j % 3]}
                if j % 5 == 4:
                    f['exc'] = 'base'
                pts.append((si, f))
        if 'F4' in kinds:
            step = 40 if tier == 'quick' else 4
            for b in range(5, 420, step):
                pts.append((si, {'kind': 'F4', 'budget': b}))
        if 'F3' in kinds:
            mm = max(4, m // 2)
            for j in range(mm):
                pts.append((si, {'kind': 'F3', 'frac': round(j / mm, 6)}))
    return pts


_plans = {}
_shapes = None


def sweep_size(tier):
    if tier not in _plans:
        _plans[tier] = plan(tier)
    return len(_plans[tier])


def gen_sweep(tier, index):
    global _shapes
    if tier not in _plans:
        _plans[tier] = plan(tier)
    if _shapes is None:
        _shapes = shapes()
    si, fault = _plans[tier][index]
    name, world, call, probes, kinds = _shapes[si]
    ops = []
    if 'warm' in kinds.split():
        # fill the cache first, so that the fault lands in the part of the call that runs on a hit
        ops.append({'op': 'call', 'cfg': call[0], 'abbr': call[1], 'pin': 1})
    ops.append({'op': 'call', 'cfg': call[0], 'abbr': call[1], 'pin': 1, 'fault': dict(fault)})
    for cfg, abbr in probes:
        ops.append({'op': 'call', 'cfg': cfg, 'abbr': abbr, 'pin': 2, 'closing': True})
    if index % 7 == 0:
        ops.append({'op': 'repeat3', 'cfg': probes[0][0], 'abbr': probes[0][1], 'pin': 3})
    import json
    return {'world': json.loads(json.dumps(world)), 'ops': ops, 'meta': {'sweep': name}}
