"""Process plumbing: fork-per-task children and a small worker pool.

* `fork_call(fn, args)` runs `fn(*args)` in a forked child of the calling
  process and returns its (pickled) result. This is what makes a reference
  "the same call in a fresh interpreter state" and what makes a simulated run
  a pure function of its op list: the child inherits the import-only state of
  the zygote and nothing else.
* `Pool` forks W long-lived workers from the (import-only) main process and
  deals tasks to them; results are collected by task index, so a batch result
  never depends on W or on which worker ran what.

Wall-clock time is only used for safety aborts (a hung child is killed and
reported as a harness error, never as a pass or a violation).
"""
import os
import pickle
import select
import signal
import struct
import sys
import time
import traceback


class ChildError(Exception):
    "The forked child crashed, timed out or raised inside harness code"


def _write_all(fd, data):
    view = memoryview(data)
    while view:
        n = os.write(fd, view)
        view = view[n:]


def _read_exact(fd, n, deadline=None):
    chunks = []
    while n > 0:
        if deadline is not None:
            left = deadline - time.monotonic()
            if left <= 0:
                raise TimeoutError()
            r, _, _ = select.select([fd], [], [], left)
            if not r:
                raise TimeoutError()
        chunk = os.read(fd, min(n, 1 << 20))
        if not chunk:
            raise EOFError()
        chunks.append(chunk)
        n -= len(chunk)
    return b''.join(chunks)


def send_msg(fd, obj):
    data = pickle.dumps(obj, protocol=pickle.HIGHEST_PROTOCOL)
    _write_all(fd, struct.pack('>Q', len(data)) + data)


def recv_msg(fd, deadline=None):
    (n,) = struct.unpack('>Q', _read_exact(fd, 8, deadline))
    return pickle.loads(_read_exact(fd, n, deadline))


def fork_call(fn, args=(), timeout=60.0):
    """Runs fn(*args) in a forked child, returns its result.
    Raises ChildError on crash / timeout / exception inside the child."""
    rfd, wfd = os.pipe()
    sys.stdout.flush()
    sys.stderr.flush()
    pid = os.fork()
    if pid == 0:
        code = 0
        try:
            os.close(rfd)
            try:
                res = ('ok', fn(*args))
            except BaseException:  # noqa
                res = ('exc', traceback.format_exc())
            try:
                send_msg(wfd, res)
            except BaseException:  # noqa
                try:
                    send_msg(wfd, ('exc', 'unpicklable result: ' + traceback.format_exc()))
                except BaseException:  # noqa
                    code = 3
        finally:
            os._exit(code)
    os.close(wfd)
    try:
        try:
            status, value = recv_msg(rfd, time.monotonic() + timeout)
        except TimeoutError:
            try:
                os.kill(pid, signal.SIGKILL)
            except OSError:
                pass
            raise ChildError('child timed out after %.0fs' % timeout)
        except EOFError:
            raise ChildError('child died without an answer')
    finally:
        os.close(rfd)
        try:
            os.waitpid(pid, 0)
        except OSError:
            pass
    if status != 'ok':
        raise ChildError('exception in child:\n' + value)
    return value


class Pool:
    """W forked workers; each runs `handler(task)` for the tasks it is dealt."""

    def __init__(self, workers, handler, init=None):
        self.workers = []
        self.handler = handler
        sys.stdout.flush()
        sys.stderr.flush()
        for _ in range(workers):
            t_r, t_w = os.pipe()   # tasks: parent -> worker
            r_r, r_w = os.pipe()   # results: worker -> parent
            pid = os.fork()
            if pid == 0:
                try:
                    os.close(t_w)
                    os.close(r_r)
                    for w in self.workers:
                        os.close(w['t_w'])
                        os.close(w['r_r'])
                    if init:
                        init()
                    self._worker_loop(t_r, r_w)
                finally:
                    os._exit(0)
            os.close(t_r)
            os.close(r_w)
            self.workers.append({'pid': pid, 't_w': t_w, 'r_r': r_r, 'busy': None})

    def _worker_loop(self, t_r, r_w):
        while True:
            try:
                task = recv_msg(t_r)
            except EOFError:
                return
            if task is None:
                return
            idx, payload = task
            try:
                res = ('ok', self.handler(payload))
            except BaseException:  # noqa
                res = ('exc', traceback.format_exc())
            send_msg(r_w, (idx, res))

    def run(self, payloads, wall_limit=None, on_result=None):
        """Runs handler over payloads; returns results in payload order.
        Raises ChildError if a worker dies, a handler raises or the wall limit hits."""
        n = len(payloads)
        results = [None] * n
        next_i = 0
        done = 0
        start = time.monotonic()
        by_fd = {w['r_r']: w for w in self.workers}
        for w in self.workers:
            if next_i < n:
                send_msg(w['t_w'], (next_i, payloads[next_i]))
                w['busy'] = next_i
                next_i += 1
        while done < n:
            timeout = None
            if wall_limit is not None:
                timeout = wall_limit - (time.monotonic() - start)
                if timeout <= 0:
                    raise ChildError('batch exceeded its wall-clock safety limit of %.0fs' % wall_limit)
            ready, _, _ = select.select(list(by_fd), [], [], timeout)
            for fd in ready:
                w = by_fd[fd]
                try:
                    idx, res = recv_msg(fd)
                except EOFError:
                    raise ChildError('worker %d died while running task %r' % (w['pid'], w['busy']))
                if res[0] != 'ok':
                    raise ChildError('exception in worker (task %d):\n%s' % (idx, res[1]))
                results[idx] = res[1]
                done += 1
                if on_result:
                    on_result(idx, res[1])
                w['busy'] = None
                if next_i < n:
                    send_msg(w['t_w'], (next_i, payloads[next_i]))
                    w['busy'] = next_i
                    next_i += 1
        return results

    def close(self):
        for w in self.workers:
            try:
                send_msg(w['t_w'], None)
            except OSError:
                pass
        for w in self.workers:
            try:
                os.close(w['t_w'])
                os.close(w['r_r'])
            except OSError:
                pass
        deadline = time.monotonic() + 5
        for w in self.workers:
            while True:
                try:
                    pid, _ = os.waitpid(w['pid'], os.WNOHANG)
                except OSError:
                    break
                if pid:
                    break
                if time.monotonic() > deadline:
                    try:
                        os.kill(w['pid'], signal.SIGKILL)
                    except OSError:
                        pass
                    try:
                        os.waitpid(w['pid'], 0)
                    except OSError:
                        pass
                    break
                time.sleep(0.01)
        self.workers = []

    def kill(self):
        for w in self.workers:
            try:
                os.kill(w['pid'], signal.SIGKILL)
            except OSError:
                pass
            try:
                os.waitpid(w['pid'], 0)
            except OSError:
                pass
        self.workers = []
