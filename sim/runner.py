"""The run child: executes one whole history in one interpreter (the system
under test) and evaluates the oracles of the requested properties after
every op. Runs in a fork of the import-only zygote; returns plain data."""
import gc
import sys

from . import census
from .hostmodel import CALL_KINDS, cfg_type, cfg_syntax
from .util import canon, sha
from .world import Host, jcopy

BASE_RECURSION_LIMIT = 6000


def outcome_class(outcome):
    return outcome[0]


def outcome_digest(outcome):
    return sha(canon(outcome))[:12]


def _roots(host):
    roots = [host.caches, host.globals]
    for h in host.cfgs.values():
        roots.append(h.user)
        roots.append(h.instance)
        roots.append(h.peer)
        roots.append(h.last_error)
    return roots


class Run:
    def __init__(self, hist, refs, faults, props, opts=None):
        self.hist = hist
        self.world = hist['world']
        self.ops = hist['ops']
        self.refs = refs
        self.faults = faults
        self.props = set(props)
        self.opts = opts or {}
        self.events = []
        self.violations = []
        self.counters = {}
        self.states = []
        self.transitions = []
        self.shape = []
        self.samples = []
        self.cache_state = {}     # cache id -> set of option digests that used it since clear
        self.census_dirty = False
        self.cache_calls = {}
        self.distinct = set()
        self.extra = {}

    # -- bookkeeping ------------------------------------------------------------
    def count(self, key, n=1):
        self.counters[key] = self.counters.get(key, 0) + n

    def violate(self, prop, oracle, subkind, op_index, detail):
        self.violations.append({'property': prop, 'oracle': oracle, 'subkind': subkind,
                                'op': op_index, 'detail': detail})

    # -- main loop ----------------------------------------------------------------
    def execute(self):
        sys.setrecursionlimit(BASE_RECURSION_LIMIT)
        gc.disable()   # collections happen at census points only: keeps runs cheap and repeatable
        c13 = c20 = None
        if 'C13' in self.props:
            from . import oracle_c13
            c13 = oracle_c13
        if 'C20' in self.props:
            from . import oracle_c20
            c20 = oracle_c20.Monitor(self)
        self.c13 = c13
        self.c20 = c20

        self.host = Host(self.world)
        if c20:
            c20.after_op(-1, {'op': 'materialise'})

        for i, op in enumerate(self.ops):
            kind = op['op']
            if kind in CALL_KINDS:
                if kind == 'call':
                    self.do_call(i, op, self.faults[i] if self.faults else None)
                else:
                    self.do_repeat3(i, op)
            elif kind == 'soak_distinct':
                self.do_soak(i, op)
            elif kind == 'fail_census':
                self.do_fail_census(i, op)
            else:
                if kind != 'resolve':
                    self.host.apply_host_op(op)
                if kind == 'clear_cache':
                    self.cache_state.pop(op['cache'], None)
                self.events.append([i, kind])
                self.shape.append([kind])
                self.count('op:' + kind)
            if c20:
                c20.after_op(i, op)
            self.note_state(i, op)
        return self.result()

    # -- abstract state measure -------------------------------------------------
    def note_state(self, i, op):
        cfgs = []
        for cid in sorted(self.host.cfgs):
            h = self.host.cfgs[cid]
            cfgs.append((bool(h.spec.get('text')), min(h.calls, 2), h.raised_before,
                         h.spec.get('holder'), cfg_type(h.spec)))
        caches = []
        for cid in sorted(self.host.caches):
            caches.append((bool(self.host.caches[cid]), min(len(self.cache_state.get(cid, ())), 2)))
        state = (tuple(cfgs), tuple(caches), self.census_dirty)
        sh = sha(repr(state))[:16]
        fault = op.get('fault', {}).get('kind') if isinstance(op.get('fault'), dict) else None
        if self.states:
            self.transitions.append(sha(repr((self.states[-1], op['op'], fault, sh)))[:16])
        self.states.append(sh)

    # -- calls ------------------------------------------------------------------
    def compare(self, i, op, outcome, info, fault, rep=None):
        "Oracle 1 of C08: every call is a probe"
        ref = self.refs[i]
        comparable = True
        if fault is not None and (fault['kind'] == 'F4' or info['fired']):
            comparable = False
        if outcome[0].startswith('fault'):
            comparable = False
        if not comparable:
            self.count('calls:not-compared(faulted)')
            return
        hh = self.host.cfgs[op['cfg']]
        if hh.poked is not None and hh.poked is hh.instance:
            self.count('calls:not-compared(host wrote into this resolved Config)')
            return
        fresh = ref['fresh']['outcome']
        if 'fresh2' in ref and ref['fresh2']['outcome'] != fresh:
            # the library's randomness is not controlled by the pinned global stream
            self.count('calls:unpinnable-random')
            return
        self.count('calls:compared')
        h = self.host.cfgs[op['cfg']]
        if outcome != fresh:
            self.violate('C08', 'result', 'history-changes-result:%s:%s->%s' % (cfg_type(h.spec), fresh[0], outcome[0]), i, {
                'abbr': op['abbr'], 'cfg': op['cfg'], 'rep': rep,
                'expected(pristine)': fresh, 'got(after history)': outcome,
                'type': cfg_type(h.spec), 'syntax': cfg_syntax(h.spec)})
        elif outcome[0] == 'ok' and info.get('peer_view') is not None and ref['fresh'].get('peer_view') is not None \
                and info['peer_view'] != ref['fresh']['peer_view']:
            # same string, but the caller's callbacks were asked different things on the way
            self.violate('C08', 'result', 'history-changes-callback-view:%s' % cfg_type(h.spec), i, {
                'abbr': op['abbr'], 'cfg': op['cfg'], 'rep': rep, 'result': outcome,
                'what': 'the sequence of output.field/output.text invocations (arguments, positions, answers) differs from the '
                        'one the same call produces in a pristine interpreter',
                'last invocations (after history)': [list(x) for x in h.peer.log[-3:]] if h.peer is not None else None})
        if 'none' in ref and ref['none']['outcome'] != fresh:
            self.violate('C08', 'result', 'cache-changes-result:%s:%s->%s' % (cfg_type(h.spec), ref['none']['outcome'][0], fresh[0]), i, {
                'abbr': op['abbr'], 'cfg': op['cfg'],
                'expected(pristine, no cache)': ref['none']['outcome'],
                'got(pristine, empty cache)': fresh})

    def probes(self, i, op, outcome, info, fault):
        h = self.host.cfgs[op['cfg']]
        spec = h.spec
        if outcome[0] != 'ok':
            if info.get('window') and spec.get('text'):
                self.count('probe:raise-inside-text-removed-window')
            if info.get('stage'):
                self.count('raise-stage:%s' % info['stage'])
        if fault is not None:
            k = fault['kind']
            self.count('fault-planned:%s' % k)
            if op.get('xh'):
                self.count('exhaustive:placements')
                if info['fired']:
                    self.count('exhaustive:placements-fired')
                    if op['xh'][1]:
                        self.count('exhaustive:fired-in-last-chunk(cap too low):%s' % op['xh'][0])
            if info['fired']:
                self.count('fault-fired:%s' % k)
                self.count('fault-fired:%s@%s' % (k, info.get('stage')))
                if k == 'F3':
                    self.count('probe:peer-failed-mid-format')
        elif outcome[0] == 'raise':
            self.count('fault-fired:natural(%s)' % (op.get('nat') or 'input'))
        if h.raised_before and h.calls > 1:
            if spec.get('holder') == 'Config':
                self.count('probe:Config-instance-reused-after-raising-call')
            else:
                self.count('probe:config-dict-reused-after-raising-call')
        cache = spec.get('cache')
        if cache is not None:
            self.cache_calls[cache] = self.cache_calls.get(cache, 0) + 1
        if cache is not None and cfg_type(spec) == 'stylesheet':
            od = sha(canon(spec.get('options') or {}))[:8]
            seen = self.cache_state.setdefault(cache, set())
            if seen and od not in seen:
                self.count('probe:cache-hit-under-options-different-from-filling-call')
                if 'numdef' in (op.get('tags') or ()):
                    self.count('probe:cache-hit-on-numeric-default-under-other-options')
            seen.add(od)

    def do_call(self, i, op, fault):
        if self.c20 is not None:
            self.c20.before_call(i, op)
        outcome, info = self.host.call(op, fault)
        self.count('op:call')
        self.count('calls:%s' % cfg_type(self.host.cfgs[op['cfg']].spec))
        self.probes(i, op, outcome, info, fault)
        if 'C08' in self.props:
            self.compare(i, op, outcome, info, fault)
        if self.c13 is not None and outcome[0] == 'ok':
            self.c13.check_call(self, i, op, outcome[1])
        if self.c20 is not None:
            self.c20.after_call(i, op, outcome, fault, info)
        fk = fault['kind'] if fault else None
        self.events.append([i, 'call', outcome[0], outcome_digest(outcome), info['peer_n'],
                            fk, bool(info['fired']), info.get('stage')])
        self.shape.append(['call', op['cfg'], fk, outcome[0]])

    def do_repeat3(self, i, op):
        host = self.host
        classes = []
        cens = []
        h = host.cfgs[op['cfg']]
        for rep in range(3):
            outcome, info = host.call(op, None)
            self.probes(i, op, outcome, info, None)
            if 'C08' in self.props:
                self.compare(i, op, outcome, info, None, rep=rep)
            if self.c13 is not None and outcome[0] == 'ok':
                self.c13.check_call(self, i, op, outcome[1])
            classes.append(outcome[0])
            digest = outcome_digest(outcome)
            del outcome
            if rep >= 1 and 'C08' in self.props:
                cens.append((census.instance_census(_roots(host)), census.container_census(), census.caller_census(host)))
            self.events.append([i, 'repeat3', rep, classes[-1], digest, info['peer_n']])
        self.count('op:repeat3')
        if (h.spec.get('options') or {}).get('bem.enabled'):
            self.count('probe:BEM-call-repeated')
        self.shape.append(['repeat3', op['cfg'], None, classes[-1]])
        if 'C08' in self.props and len(cens) == 2 and classes == ['ok', 'ok', 'ok']:
            self.count('census:measured')
            ((inst2, pay2, alive2), cont2, call2), ((inst3, pay3, alive3), cont3, call3) = cens
            fresh_objs = sorted(set(k for i_, k in alive3.items() if i_ not in alive2))
            g_inst = census.growth(inst2, inst3)
            g_cont = census.growth(cont2, cont3)
            g_pay = census.growth(pay2, pay3)
            g_call = census.growth(call2, call3)
            if g_call:
                self.census_dirty = True
                self.violate('C08', 'leak', 'caller-objects:%s' % g_call[0][0], i, {
                    'abbr': op['abbr'], 'cfg': op['cfg'],
                    'containers inside the caller\'s own cache / config objects grew between 2nd and 3rd identical call': g_call[:8]})
            if g_pay and not g_inst:
                self.census_dirty = True
                self.violate('C08', 'leak', 'payload:%s' % g_pay[0][0], i, {
                    'abbr': op['abbr'], 'cfg': op['cfg'],
                    'containers held by long-lived library objects grew between 2nd and 3rd identical call': g_pay[:8]})
            self.extra['containers_tracked'] = len(cont3)
            if fresh_objs and not g_inst:
                # as many library objects as before, but not the same ones: the previous call's
                # objects were replaced by this call's
                self.census_dirty = True
                self.violate('C08', 'leak', 'turnover:%s' % fresh_objs[0], i, {
                    'abbr': op['abbr'], 'cfg': op['cfg'],
                    'library objects created by the 3rd identical call that are still alive after it returned': fresh_objs[:8]})
            if g_cont:
                self.census_dirty = True
                name = g_cont[0][0]
                self.violate('C08', 'leak', 'containers:%s' % name, i, {
                    'abbr': op['abbr'], 'cfg': op['cfg'],
                    'grew between 2nd and 3rd identical call': g_cont[:8]})
            if g_inst:
                self.census_dirty = True
                name = g_inst[0][0]
                self.violate('C08', 'leak', 'instances:%s' % name, i, {
                    'abbr': op['abbr'], 'cfg': op['cfg'],
                    'grew between 2nd and 3rd identical call': g_inst[:8]})
        elif 'C08' in self.props:
            self.count('census:skipped(call did not return normally)')

    # -- nothing of a FAILED call stays alive once the caller let go of the exception ----
    def do_fail_census(self, i, op):
        """ok call twice, then the failing call three times, each time the host lets go of the exception object;
        census after the 2nd and after the 3rd failure. Library objects that are alive after the 3rd failure and
        were not after the 2nd were created by a failed call and kept by the library (an exception stored for
        diagnostics drags the frames of the failed call, its Config, the caller's callbacks and texts with it).
        The warm-up rule of the steady-state census applies to failing calls too: the first failures may
        legitimately populate argument-keyed memos, an identical repeat may not leave anything new. One slot is
        enough to violate: this is not a growth measure."""
        host = self.host
        h = host.cfgs[op['cfg']]
        ok = {'op': 'call', 'cfg': op['cfg'], 'abbr': op['ok'], 'pin': 0}
        bad = {'op': 'call', 'cfg': op['cfg'], 'abbr': op['bad'], 'pin': 0}
        for _ in range(2):
            outcome, info = host.call(ok, None)
            ok_class = outcome[0]
            del outcome
        saved = h.last_error
        classes = []
        marks = []
        for rep in range(3):
            outcome, info = host.call(bad, dict(op['fault']) if op.get('fault') else None)
            classes.append(outcome[0])
            del outcome, info
            h.last_error = None
            if rep >= 1:
                inst, _pay, alive = census.instance_census(_roots(host))
                marks.append((inst, alive, census.container_census()))
        h.last_error = saved
        self.count('op:fail_census')
        self.events.append([i, 'fail_census', ok_class, classes])
        self.shape.append(['fail_census', op['cfg'], None, classes[-1]])
        if 'C08' not in self.props:
            return
        if ok_class != 'ok' or any(c == 'ok' for c in classes) or len(set(classes)) != 1:
            self.count('fail-census:skipped(the calls did not end as planned)')
            return
        self.count('fail-census:measured')
        (inst_b, alive_b, cont_b), (inst_c, alive_c, cont_c) = marks
        fresh = sorted(set(k for i_, k in alive_c.items() if i_ not in alive_b))
        g_cont = census.growth(cont_b, cont_c)
        if fresh:
            self.violate('C08', 'leak', 'kept-after-failure:%s' % fresh[0], i, {
                'cfg': op['cfg'], 'failing call': op['bad'], 'fault': op.get('fault'),
                'library objects created by the 3rd identical failed call that are still alive after the caller let go of the exception': fresh[:8],
                'instances after the 2nd / 3rd failure': census.growth(inst_b, inst_c)[:8]})
        elif g_cont:
            self.violate('C08', 'leak', 'kept-after-failure:%s' % g_cont[0][0], i, {
                'cfg': op['cfg'], 'failing call': op['bad'], 'fault': op.get('fault'),
                'module-lifetime containers grew between the 2nd and the 3rd identical failed call': g_cont[:8]})

    # -- unbounded growth with distinct inputs ------------------------------------
    @staticmethod
    def word(j):
        "j -> a distinct lower-case word without digits (digits would be parsed as values in CSS abbreviations)"
        out = ''
        j += 1
        while j:
            j, r = divmod(j - 1, 26)
            out = chr(97 + r) + out
        return 'x' + out     # (no built-in CSS snippet key starts with x: such a name stays unmatched and distinct)

    def soak_abbr(self, kind, j):
        w = self.word(j)
        if kind == 'stylesheet':
            return 'm%d+%s+p%d-%s+c#%03x+y%s:%s+w%d%s' % (j % 50, w, j % 7, w, j % 4096, w, w, j % 90, w)
        # (a distinct name in every syntactic position: tag, class, BEM element/modifier with and without a block,
        #  id, attribute name and value, boolean attribute, text, namespace, variable-looking text)
        return 'p.-o%s._m%s#d%s+ul.l%s>li.i%s*2>a[title=%s data-%s]{t %s}+%s+p.-e%s._n%s+x%s:y%s[b%s.]{${%s}}' % ((w,) * 14 + ('lang',))

    def do_soak(self, i, op):
        """warm + seg + seg calls with pairwise DISTINCT abbreviations on one config; what the library
        keeps alive must stop growing: an unbounded memo / registry / 'seen' set keyed by the input is
        per-call data kept alive (a cache bounded below ~1000 entries saturates in the first segment)"""
        host = self.host
        h = host.cfgs[op['cfg']]
        kind = cfg_type(h.spec)
        warm, seg = int(op.get('warm', 100)), int(op.get('seg', 1100))
        marks = []
        j = 0
        fresh = bool(op.get('fresh_cfg'))
        for upto in (warm, warm + seg, warm + 2 * seg):
            while j < upto:
                cid = op['cfg']
                if fresh:
                    # a host that builds a new config (own dicts, own callback objects, own Config instance) for
                    # every call and drops it afterwards: nothing of it may stay alive inside the library
                    cid = '~soak'
                    host.add_config(cid, dict(jcopy(h.spec), id=cid))
                outcome, info = host.call({'op': 'call', 'cfg': cid, 'abbr': self.soak_abbr(kind, j), 'pin': 0}, None)
                del outcome
                if fresh:
                    del host.cfgs[cid]
                j += 1
            inst, pay, _alive = census.instance_census(_roots(host))
            marks.append((inst, pay, census.container_census(), census.caller_census(host)))
        self.count('op:soak_distinct')
        self.count('soak:distinct-calls', j)
        self.events.append([i, 'soak_distinct', j])
        self.shape.append(['soak_distinct', op['cfg'], None, 'ok'])
        if 'C08' not in self.props:
            return
        for label, idx in (('instances', 0), ('payload', 1), ('containers', 2), ('caller-objects', 3)):
            a = census.growth(marks[0][idx], marks[1][idx])
            b = dict((k, (x, y)) for k, x, y in census.growth(marks[1][idx], marks[2][idx]))
            for k, x, y in a:
                ga_ = y - x
                if k in b:
                    gb = b[k][1] - b[k][0]
                    if gb >= 100 and gb >= 0.5 * ga_:
                        self.violate('C08', 'leak', 'unbounded-%s:%s' % (label, k), i, {
                            'cfg': op['cfg'], 'what': 'still growing at the same pace after %d calls with pairwise distinct abbreviations' % (warm + seg),
                            'size after %d / %d / %d distinct calls' % (warm, warm + seg, warm + 2 * seg): [x, y, b[k][1]]})
                        break

    # -- result -------------------------------------------------------------------
    def result(self):
        if self.c20 is not None:
            self.distinct.update(self.c20.finish())
        nontrivial = any(h.calls >= 2 for h in self.host.cfgs.values()) or \
            any(n >= 2 for n in self.cache_calls.values())
        return {
            'nontrivial': bool(nontrivial),
            'distinct_keys': sorted(self.distinct),
            'events': self.events,
            'digest': sha(canon(self.events)),
            'violations': self.violations,
            'counters': self.counters,
            'states': sorted(set(self.states)),
            'transitions': sorted(set(self.transitions)),
            'shape': sha(canon(self.shape))[:16],
            'extra': self.extra,
        }


def run_history(hist, refs, faults, props, opts=None):
    import warnings
    # (warnings the library may emit are not shown; filters and registries work as usual)
    warnings.showwarning = lambda *a, **k: None
    from . import libcov
    libcov.start()
    res = Run(hist, refs, faults, props, opts).execute()
    res['libcov'] = libcov.stop()
    return res
