"""Small helpers: canonical JSON, hashing, seed derivation.

Nothing in here may read a clock, the environment or a global PRNG: a run has
to be a pure function of (VERIF_SEED, profile, run_index, code under test).
"""
import hashlib
import json
import random


def canon(obj) -> str:
    "Canonical JSON text of a JSON value (stable key order, ASCII only)"
    return json.dumps(obj, sort_keys=True, separators=(',', ':'), ensure_ascii=True)


def sha(text: str) -> str:
    return hashlib.sha256(text.encode('utf-8', 'surrogatepass')).hexdigest()


def sha_obj(obj) -> str:
    return sha(canon(obj))


def h64(*parts) -> int:
    "64-bit integer derived from JSON-able parts (seed derivation)"
    return int.from_bytes(hashlib.sha256(canon(list(parts)).encode()).digest()[:8], 'big')


def rng_for(*parts) -> random.Random:
    "Private PRNG for one purpose, derived from the given parts only"
    return random.Random(h64(*parts))


def frac_for(*parts) -> float:
    "Deterministic value in [0, 1) derived from parts (no PRNG state involved)"
    return h64(*parts) / 2.0 ** 64


def jcopy(obj):
    "Deep copy of a JSON value"
    return json.loads(json.dumps(obj))


def short(text, n=120):
    text = text if isinstance(text, str) else canon(text)
    return text if len(text) <= n else text[:n - 1] + '…'
