"""Workload for C13: calls observed by a simulated editor peer.

The markup generator prints abbreviations from an explicit tree and takes the
expected number of tabstops from that tree (never from a re-parse of the
string). Vocabulary for the counted mode is restricted to names outside every
snippet table and to plain empty attributes, so the count needs no model of
snippets, boolean/implied attributes, `label`, lorem or wrap text.
Explicit fields carry placeholders of the form `v<K>i<N><c>` (value K, written
index N) so that the oracle can attribute every callback invocation to the
value and the written index it came from without parsing any output.
"""
import random

from .gen_abbr import pick, maybe
from . import gen_abbr as ga
from .gen_hist import PEER_STYLES, gen_text

PLAIN_NAMES = ['div', 'p', 'span', 'ul', 'ol', 'li', 'section', 'article', 'header', 'footer', 'nav', 'main', 'em',
               'strong', 'h1', 'h2', 'td', 'tr', 'table', 'x-foo', 'ns:tag', 'b', 'i', 'dl', 'dt', 'dd', 'aside',
               'pre', 'code', 'small', 'thead', 'tbody', 'Comp', 'my-el', 'q', 'cite', 'foo', 'bar']
PLAIN_ATTRS = ['data-a', 'data-b', 'foo', 'bar', 'x', 'aria-label', 'role', 'lang']
PLAIN_CLASSES = ['a', 'b', 'item', 'row', 'c-d', 'n$', 'blk', 'x1']
PLAIN_TEXTS = ['text', 'Hello World', 'a b c', 'é ü', 'x < y & z', 'tab\there', 'item $', '  pad  ', 'line1\nline2', 'l1\r\nl2\nl3',
               'sep\u2028arated', '<b>t</b>', '"q"', 'a\n\nb', '\U0001F600 smile', 'a\U0001F600b\U0001F680', 'e\u0301 combining',
               '\u4e2d\u6587', 'x\U0001F600\ny', 'trail  \nnext', 'tab\t\nx \n y', ' \n ', 'end \n']

HTML_SYNTAXES = ['html', 'html', 'html', 'xml', 'xsl', 'jsx', 'js', 'vue', 'svelte', 'xhtml', 'myml']
INDENT_SYNTAXES = ['pug', 'slim', 'haml']
STYLE_SYNTAXES = ['css', 'scss', 'sass', 'less', 'stylus', 'sss']

NEWLINES = ['\n', '\n', '\n', '\r\n', '\r\n', '\r', '\n\n', ' \n', '\u2028', '\r\n\t\r\n']
INDENTS = ['\t', '  ', '    ', '']
BASE_INDENTS = ['', '', '  ', '\t', '      ']


class Tree:
    "Explicit abbreviation tree -> string + tabstop count"

    def __init__(self, rng, explicit=False, allow_text=True, max_nodes=9, wrap=None):
        self.rng = rng
        self.explicit = explicit
        self.allow_text = allow_text
        self.wrap = wrap            # the config's wrap text (None, str or list of non-empty lines)
        self.implicit_used = False
        self.anon_values = 0
        self.snippets = {}          # user snippets the config defines (explicit mode only)
        self.uses_snippets = False
        self.budget = rng.randint(1, max_nodes)
        self.values = 0
        self.fields_written = 0

    def field_value(self, multiline=False, named_only=False):
        "A value (text or attribute value) with explicit fields; returns token string"
        rng = self.rng
        self.values += 1
        k = self.values
        if not named_only and maybe(rng, 0.12):
            # a single anonymous field: the oracle cannot attribute an empty placeholder to a
            # value, so anonymous fields never share a value with other fields
            self.fields_written += 1
            return '${%d}' % pick(rng, [0, 1, 2, 3])
        n = rng.randint(1, 3)
        idx = [pick(rng, [0, 1, 1, 2, 2, 3, 5]) for _ in range(n)]
        parts = []
        letters = 'abcdefgh'
        for j, ix in enumerate(idx):
            ph = 'v%di%d%s' % (k, ix, letters[j])
            parts.append('${%d:%s}' % (ix, ph))
            self.fields_written += 1
        glues = [' ', ' x ', '-', ' and ', '', ' \U0001F600 ']
        if multiline:
            glues += [' x\ny ', '\n', ' a\nb\nc ', ' \n ', 'x  \n\ty']
        glue = pick(rng, glues)
        return glue.join(parts)

    def element(self, depth):
        rng = self.rng
        self.budget -= 1
        node = {'name': pick(rng, PLAIN_NAMES) if maybe(rng, 0.85) else '', 'cls': [], 'attrs': [], 'text': None,
                'selfclose': False, 'repeat': None, 'children': []}
        for _ in range(pick(rng, [0, 0, 1, 1, 2])):
            node['cls'].append(pick(rng, PLAIN_CLASSES))
        if not node['name'] and not node['cls']:
            node['cls'].append('c')
        if self.explicit and self.snippets and node['name'] and maybe(rng, 0.12):
            # an element that is a user snippet with field-bearing text / attributes of its own
            node['name'] = pick(rng, sorted(self.snippets))
            node['snippet'] = True
            self.uses_snippets = True
        if node['name'] and not node['cls'] and maybe(rng, 0.08):
            # an explicitly empty primary attribute: a tabstop in the HTML formatter, not output at all
            # (pug/slim/haml write id and class only when they have a value)
            node['attrs'].append((pick(rng, ['class', 'id']), pick(rng, ['empty', 'emptyq']), None))
        elif self.explicit and maybe(rng, 0.25):
            # id / class values with explicit fields: they are output once more by comments, and
            # together by the indent formatters (primary attributes)
            which = pick(rng, ['id', 'class', 'both', 'both'])
            if which in ('id', 'both'):
                node['attrs'].append(('id', 'fields', self.field_value(named_only=True)))
            if which in ('class', 'both'):
                node['attrs'].append(('class', 'fields', pick(rng, ['item ', '', 'a b ']) + self.field_value(named_only=True)))
        if maybe(rng, 0.45):
            used = set()
            for _ in range(rng.randint(1, 3)):
                a = pick(rng, PLAIN_ATTRS)
                if a in used:
                    continue
                used.add(a)
                r = rng.random()
                if self.explicit and r < 0.35:
                    node['attrs'].append((a, 'fields', self.field_value()))
                elif r < 0.41:
                    # boolean attribute (`name.`): never a tabstop, whatever the options
                    node['attrs'].append((a, 'bool', None))
                elif r < 0.47:
                    node['attrs'].append((a, 'empty', None))
                elif r < 0.6:
                    node['attrs'].append((a, 'emptyq', None))
                else:
                    node['attrs'].append((a, 'value', pick(rng, ['v', 'a b', 'v$', '1', '\U0001F600', 'e\u0301x', 'l1 \nl2', ' lead'])))
        if maybe(rng, 0.15):
            node['repeat'] = rng.randint(1, 3)
        elif self.wrap is not None and not self.implicit_used and maybe(rng, 0.3):
            # implicit repeater: one copy per line of the wrap text
            node['repeat'] = '*'
            self.implicit_used = True
        r = rng.random()
        if self.budget > 0 and depth < 5 and r < 0.55:
            n = pick(rng, [1, 1, 2, 3])
            for _ in range(n):
                if self.budget <= 0:
                    break
                node['children'].append(self.item(depth + 1))
        else:
            r2 = rng.random()
            if self.explicit and r2 < 0.45:
                node['text'] = ('fields', self.field_value(multiline=True))
            elif self.allow_text and r2 < 0.6:
                node['text'] = ('plain', pick(rng, PLAIN_TEXTS))
            elif r2 < 0.7:
                node['selfclose'] = True
        if node['children'] and self.explicit and maybe(rng, 0.15):
            # value with fields *and* children: children are output in place of the first field
            node['text'] = ('fields', self.field_value())
        return node

    def item(self, depth):
        rng = self.rng
        if self.budget > 1 and depth < 4 and maybe(rng, 0.15):
            self.budget -= 1
            g = {'group': True, 'repeat': rng.randint(1, 3) if maybe(rng, 0.5) else None, 'children': []}
            for _ in range(pick(rng, [1, 2, 2, 3])):
                if self.budget <= 0:
                    break
                g['children'].append(self.item(depth + 1))
            if not g['children']:
                g['children'].append(self.element(depth + 1))
            return g
        return self.element(depth)

    def root(self):
        items = [self.item(0)]
        while self.budget > 0 and maybe(self.rng, 0.4):
            items.append(self.item(0))
        return items


def print_items(items):
    out = []
    for i, it in enumerate(items):
        s = print_item(it)
        last = i == len(items) - 1
        if not last and not it.get('group') and it['children']:
            s = '(' + s + ')'
        out.append(s)
    return '+'.join(out)


def print_item(it):
    if it.get('group'):
        s = '(' + print_items(it['children']) + ')'
        if it['repeat']:
            s += '*%d' % it['repeat']
        return s
    s = it['name']
    for c in it['cls']:
        s += '.' + c
    if it['attrs']:
        parts = []
        for name, kind, val in it['attrs']:
            if kind == 'empty':
                parts.append(name)
            elif kind == 'bool':
                parts.append(name + '.')
            elif kind == 'emptyq':
                parts.append('%s=""' % name)
            elif kind == 'fields':
                parts.append('%s="%s"' % (name, val))
            else:
                parts.append('%s="%s"' % (name, val))
        s += '[' + ' '.join(parts) + ']'
    if it['text']:
        s += '{' + it['text'][1] + '}'
    if it['selfclose']:
        s += '/'
    if it['repeat'] == '*':
        s += '*'
    elif it['repeat']:
        s += '*%d' % it['repeat']
    if it['children']:
        s += '>' + print_items(it['children'])
    return s


def deepest_last(items):
    "The element that wrap text is inserted into: last item, last child, ... (None for an empty list)"
    if not items:
        return None
    it = items[-1]
    if it.get('group'):
        return deepest_last(it['children'])
    if it['children']:
        return deepest_last(it['children'])
    return it


def is_empty_leaf(it):
    return it is not None and not it['children'] and not it['text'] and not it['selfclose']


def has_implicit(items):
    for it in items:
        if it.get('repeat') == '*' or has_implicit(it['children']):
            return True
    return False


def count_with_wrap(items, wrap):
    """Tabstop count when the config carries wrap text: the text goes into the deepest last
    element (of every copy of the implicitly repeated element, or of the whole abbreviation
    if there is none), which therefore is no empty leaf any more."""
    if wrap is None:
        return count_tabstops(items)
    k = len(wrap) if isinstance(wrap, list) else 1
    n = count_tabstops(items, 1, k)
    if not has_implicit(items):
        if is_empty_leaf(deepest_last(items)):
            n -= 1
    return n


ANON = __import__('re').compile(r'^\$\{\d+\}$')
BOOLEANS = ()      # attribute names the config under generation declares boolean (set by the generator)
SKIPPED = [0]
INDENT_FORMATTER = False   # pug/slim/haml write a text value AND the children; html puts the children in place of the first field


def count_tabstops(items, mult=1, k=1):
    """Invocations of output.field with an EMPTY placeholder: empty attribute values + empty
    non-self-closed leaves (+ values that are one anonymous explicit field), with repetition"""
    n = 0
    for it in items:
        if it.get('repeat') == '*':
            m = mult * k
            # the k copies of the FIRST execution of the implicitly repeated element receive one
            # line of the wrap text each, in their deepest last element (later executions under a
            # repeated parent are unrolled to k copies as well but get no text)
            target = deepest_last(it['children']) if it['children'] else it
            if is_empty_leaf(target):
                n -= k
        else:
            m = mult * (it.get('repeat') or 1)
        if it.get('group'):
            n += count_tabstops(it['children'], m, k)
            continue
        for _name, kind, _val in it['attrs']:
            if kind in ('empty', 'emptyq') and _name in ('class', 'id'):
                if not INDENT_FORMATTER:
                    n += m
                else:
                    # today pug/slim/haml do not write an empty id/class at all; should they ever write it
                    # with a tabstop, that is fine by the property too: both counts are accepted
                    SKIPPED[0] += m
            elif kind in ('empty', 'emptyq') and _name not in BOOLEANS:
                n += m
            elif kind == 'fields' and ANON.match(_val):
                n += m
        if not it['children'] and not it['text'] and not it['selfclose']:
            n += m
        if it['text'] and it['text'][0] == 'fields' and ANON.match(it['text'][1]) and (INDENT_FORMATTER or not it['children']):
            # (in the HTML formatter the children are output in place of the first field of the text)
            n += m
        n += count_tabstops(it['children'], m, k)
    return n


NAMED = __import__('re').compile(r'\$\{\d+:(v\d+i\d+[a-z])\}')
SNIPPET_FIELDS = {
    # user snippets of the explicit mode: name -> (definition, placeholders in its attributes, placeholders in its text)
    'sfa': ('h3{${1:v901i1a} ${2:v901i2b}}', [], ['v901i1a', 'v901i2b'], '${1:v901i1a} ${2:v901i2b}'),
    'sfb': ('h4[title="${1:v902i1a}"]{${0:v903i0a}}', ['v902i1a'], ['v903i0a'], '${0:v903i0a}'),
    'sfc': ('h5[title="${2:v904i2a} ${1:v904i1b}"]', ['v904i2a', 'v904i1b'], [], ''),
}
BEM_ON = False
WRAP_ON = False


def expected_named(items, out=None):
    """Placeholders of explicit fields that must reach output.field at least once: every named field
    written in the abbreviation (or in the definition of a snippet it uses), except the first field of a
    text that the HTML formatter replaces by the children, the text of a snippet that the abbreviation
    overrides, and class values that BEM rewrites"""
    out = set() if out is None else out
    for it in items:
        if it.get('group'):
            expected_named(it['children'], out)
            continue
        for _name, kind, val in it['attrs']:
            if kind == 'fields' and not (BEM_ON and _name == 'class'):
                out.update(NAMED.findall(val))
        text_fields = NAMED.findall(it['text'][1]) if (it['text'] and it['text'][0] == 'fields') else []
        if it.get('snippet'):
            _def, attr_ph, text_ph, _txt = SNIPPET_FIELDS[it['name']]
            out.update(attr_ph)
            if not it['text'] and not WRAP_ON:
                # (wrap text that lands in a snippet element overrides the snippet's own text, like text
                # written in the abbreviation does; with wrap text on, nothing is expected of snippet texts)
                text_fields = list(text_ph)
        if text_fields:
            if it['children'] and not INDENT_FORMATTER:
                # is the very first field of the text a named one? then it is the one replaced
                first = __import__('re').search(r'\$\{\d+(:[^}]*)?\}', it['text'][1] if it['text'] else SNIPPET_FIELDS[it['name']][3])
                if first and first.group(1):
                    dropped = first.group(1)[1:]
                    text_fields = [t for t in text_fields if t != dropped]
            out.update(text_fields)
        expected_named(it['children'], out)
    return out


def used_names(items, names=None, attrs=None):
    names = set() if names is None else names
    attrs = set() if attrs is None else attrs
    for it in items:
        if not it.get('group'):
            if it['name']:
                names.add(it['name'])
            for a, _kind, _val in it['attrs']:
                attrs.add(a)
        used_names(it['children'], names, attrs)
    return names, attrs


def counted_meta(items, wrap=None):
    names, attrs = used_names(items)
    SKIPPED[0] = 0
    expect = count_with_wrap(items, wrap)
    meta = {'mode': 'auto', 'expect': expect, 'names': sorted(names), 'attrs': sorted(attrs), 'wrap': wrap}
    if SKIPPED[0]:
        meta['expect_alt'] = expect + SKIPPED[0]
    return meta


def gen_markup_counted(rng, wrap=None):
    t = Tree(rng, explicit=False, allow_text=True, wrap=wrap)
    items = t.root()
    return print_items(items), counted_meta(items, wrap)


def gen_markup_explicit(rng, wrap=None, snippets=None):
    t = Tree(rng, explicit=True, allow_text=True, wrap=wrap)
    t.snippets = snippets or {}
    items = t.root()
    abbr = print_items(items)
    if t.fields_written == 0 and not t.uses_snippets:
        return abbr, counted_meta(items, wrap)
    meta = counted_meta(items, wrap)
    out = {'mode': 'explicit', 'names': meta['names'], 'attrs': meta['attrs'], 'wrap': wrap,
           'expect_named': sorted(expected_named(items))}
    if not t.uses_snippets:
        out['expect_anon'] = meta['expect']
        if 'expect_alt' in meta:
            out['expect_anon_alt'] = meta['expect_alt']
    else:
        out['names'] = [n for n in out['names'] if n not in SNIPPET_FIELDS]
    return abbr, out


STYLE_ABBRS = ['m10', 'p10-20', 'bd1-s#fc0', 'bd', 'c', 'bg', 'f', 'trs', 'anim', 'bxsh', '@kf', '@m', '@f', '@ff', 'gt', 'trf',
               'm10+p20+bd', 'lg(to right, #0, #f00.5)', 'd', 'pos', 'fl', 'ov', 'ta', 'cur', 'm0-auto', 'c#f', 'op.5', 'z10',
               'foo', 'p!', 'w100p+h10e', 'bgc#f00.3', 'tsh', 'to', 'bdrs4', 'cnt', 'q', 'lis', 'ff', 'rawa', 'rawb', 'kpad',
               'gtx', 'bgi', 'bgp', 'olc', 'animdur', 'trf-scale(1.5)', 'mt10+mr-10+mb10p+ml1.5r', 'zom+op+fw+lh']


def counted_call(rng, spec, op, explicit=None):
    "Fills op['abbr'] / op['c13'] from the generators that keep the explicit tree (count model, explicit fields)"
    global BOOLEANS, INDENT_FORMATTER, BEM_ON, WRAP_ON
    WRAP_ON = spec.get('text') is not None
    BOOLEANS = tuple(spec['options'].get('output.booleanAttributes') or ())
    INDENT_FORMATTER = spec.get('syntax') in INDENT_SYNTAXES
    BEM_ON = bool(spec['options'].get('bem.enabled'))
    if (maybe(rng, 0.5) if explicit is None else not explicit):
        op['abbr'], op['c13'] = gen_markup_counted(rng, spec.get('text'))
    else:
        op['abbr'], op['c13'] = gen_markup_explicit(rng, spec.get('text'), spec.get('snippets'))
    op['c13']['bem'] = BEM_ON
    op['c13']['snippets'] = sorted(spec.get('snippets') or {})
    BEM_ON = False
    op['c13']['booleans'] = list(BOOLEANS)
    op['c13']['formatter'] = 'indent' if INDENT_FORMATTER else 'html'
    BOOLEANS = ()
    INDENT_FORMATTER = False


def gen_c13(run_seed):
    rng = random.Random(run_seed)
    world = {'configs': {}, 'caches': [], 'globals': {}}
    family = pick(rng, ['html', 'html', 'html', 'indent', 'indent', 'style', 'free'])
    n_cfg = pick(rng, [1, 1, 2])
    fault_rate = pick(rng, [0, 0, 0.1, 0.25])
    for ci in range(n_cfg):
        cid = 'c%d' % ci
        spec = {'id': cid, 'holder': pick(rng, ['dict', 'dict', 'Config'])}
        opts = {'output.newline': pick(rng, NEWLINES)}
        if maybe(rng, 0.7):
            opts['output.indent'] = pick(rng, INDENTS)
        if maybe(rng, 0.6):
            opts['output.baseIndent'] = pick(rng, BASE_INDENTS)
        if family == 'style':
            spec['type'] = 'stylesheet'
            spec['syntax'] = pick(rng, STYLE_SYNTAXES)
            if maybe(rng, 0.3):
                opts['output.format'] = pick(rng, [True, False])
            if maybe(rng, 0.3):
                opts['stylesheet.between'] = pick(rng, [': ', ':', ' '])
            # separators that carry a line break of their own (drawn from a stream of their own, so that the
            # histories generated before this option family existed stay what they were)
            rng2 = random.Random(run_seed ^ (0x5EA1 + ci))
            if maybe(rng2, 0.12):
                opts['stylesheet.between'] = pick(rng2, [':\n\t', ' :\n', ':\n\n'])
            if maybe(rng2, 0.12):
                opts['stylesheet.after'] = pick(rng2, [';\n', '\n;', '', ' ;', ';\n\n'])
            if maybe(rng, 0.2):
                opts['stylesheet.json'] = True
            if maybe(rng, 0.3):
                opts['stylesheet.intUnit'] = pick(rng, ['px', 'rem', ''])
            spec['snippets'] = {k: ga.STYLESHEET_USER_SNIPPETS[k] for k in ('rawa', 'rawb', 'kpad', 'gtx')}
            if maybe(rng, 0.3):
                world['caches'] = ['k0']
                spec['cache'] = 'k0'
        else:
            if family == 'html':
                spec['syntax'] = pick(rng, HTML_SYNTAXES)
            elif family == 'indent':
                spec['syntax'] = pick(rng, INDENT_SYNTAXES)
            else:
                spec['syntax'] = pick(rng, HTML_SYNTAXES + INDENT_SYNTAXES)
            for key, vals, p in (('output.format', [True, False], 0.3), ('output.formatLeafNode', [True, False], 0.25),
                                 ('output.inlineBreak', [0, 1, 2, 3], 0.3), ('output.selfClosingStyle', ['html', 'xhtml', 'xml'], 0.3),
                                 ('output.attributeQuotes', ['single', 'double'], 0.2), ('output.tagCase', ['upper', 'lower', ''], 0.15),
                                 ('output.compactBoolean', [True, False], 0.15), ('output.reverseAttributes', [True, False], 0.15),
                                 ('output.formatForce', [['body'], ['p', 'li', 'div']], 0.2), ('output.formatSkip', [['html'], ['div', 'ul']], 0.2),
                                 ('comment.enabled', [True], 0.2), ('comment.after', ['\n<!-- /[#ID][.CLASS] -->', '<!-- /[.CLASS] -->'], 0.15),
                                 ('comment.before', ['<!-- [.CLASS] -->\n', ''], 0.1),
                                 ('bem.enabled', [True], 0.15), ('inlineElements', [['span', 'em', 'b', 'i', 'strong', 'q'], []], 0.15),
                                 ('output.booleanAttributes', [['foo', 'role'], ['data-a'], []], 0.2)):
                if maybe(rng, p):
                    opts[key] = pick(rng, vals)
            if family in ('html', 'indent') and maybe(rng, 0.3):
                # user snippets whose definitions carry explicit fields of their own
                spec['snippets'] = {k: v[0] for k, v in SNIPPET_FIELDS.items()}
            if family in ('html', 'indent') and maybe(rng, 0.25):
                # wrap text (plain, non-empty lines): goes into the deepest last element
                spec['text'] = pick(rng, [['foo'], ['foo', 'bar baz'], ['one', 'two', 'x < y'], 'single', 'two words', 'l1  \nl2', ['a \nb', 'c']])
            if family == 'free':
                if maybe(rng, 0.5):
                    spec['text'] = gen_text(rng)
                if maybe(rng, 0.4):
                    spec['snippets'] = {k: ga.MARKUP_USER_SNIPPETS[k] for k in ('foo', 'fld', 'grp', 'repeat', 'txt', 'rep')}
        if family != 'style' and maybe(rng, 0.3):
            # the host hands every call the same cache dict (it is meant for stylesheet snippets, but
            # a markup call gets it as well)
            world['caches'] = ['k0']
            spec['cache'] = 'k0'
        spec['options'] = opts
        spec['peer'] = {'seed': rng.randrange(1 << 16), 'style': pick(rng, PEER_STYLES)}
        world['configs'][cid] = spec

    ops = []
    length = pick(rng, [1, 2, 2, 3, 4, 6])
    cids = sorted(world['configs'])
    while len(ops) < length:
        cid = pick(rng, cids)
        spec = world['configs'][cid]
        if len(ops) > 0 and maybe(rng, 0.12):
            key, vals = pick(rng, [('output.newline', NEWLINES), ('output.indent', INDENTS), ('output.baseIndent', BASE_INDENTS)])
            ops.append({'op': 'edit_cfg', 'cfg': cid, 'path': ['options', key], 'value': pick(rng, vals), 'inplace': maybe(rng, 0.5)})
            continue
        op = {'op': 'call', 'cfg': cid, 'pin': rng.randrange(100)}
        if spec.get('type') == 'stylesheet':
            n = pick(rng, [1, 1, 2, 3])
            op['abbr'] = '+'.join(pick(rng, STYLE_ABBRS) for _ in range(n)) if maybe(rng, 0.8) else ga.gen_stylesheet(rng, {'user_snippets': ['rawa', 'rawb', 'kpad', 'gtx']})
            op['c13'] = {'mode': 'positions'}
        elif family == 'free':
            r = rng.random()
            if r < 0.5:
                op['abbr'] = pick(rng, ga.MARKUP_CORPUS)
            else:
                op['abbr'] = ga.gen_markup(rng, {'bem': bool(spec['options'].get('bem.enabled')), 'lorem': maybe(rng, 0.2),
                                                 'text': bool(spec.get('text')), 'user_snippets': sorted(spec.get('snippets') or {})})
            op['c13'] = {'mode': 'positions'}
        else:
            counted_call(rng, spec, op)
        if maybe(rng, fault_rate):
            k = pick(rng, ['F3', 'F3', 'F5', 'F1'])
            if k == 'F3':
                op['fault'] = {'kind': 'F3', 'frac': round(rng.random(), 4)}
                if maybe(rng, 0.5):
                    op['fault']['exc'] = pick(rng, ['TypeError', 'ValueError', 'KeyError', 'RuntimeError', 'AttributeError'])
            elif k == 'F5':
                op['fault'] = {'kind': 'F5', 'mode': pick(rng, ['nth', 'func']), 'frac': round(rng.random(), 5), 'frac2': round(rng.random(), 5)}
            else:
                op['abbr'] = ga.mutate(rng, op['abbr'])
                op['nat'] = 'F1'
                op['c13'] = {'mode': 'positions'}
        ops.append(op)
    return {'world': world, 'ops': ops, 'meta': {'family': family}}


# ---------------------------------------------------------------------------
# deterministic part of every C13 batch: a grid over (syntax, newline string, baseIndent, indent)

GRID_SYNTAXES = [('markup', s) for s in ('html', 'xml', 'xsl', 'jsx', 'js', 'vue', 'svelte', 'xhtml', 'myml', 'pug', 'slim', 'haml')] + \
                [('stylesheet', s) for s in STYLE_SYNTAXES]
GRID_NEWLINES = ['\n', '\r\n', '\r', '\n\n', ' \n', '\u2028', '\r\n\t\r\n']
GRID_BASE = ['', '  ', '\t', '      ']
GRID_INDENT = ['\t', '  ', '']
GRID_MARKUP_FIXED = ['div>p{a\nb}+span', 'ul>li*2>a[href]{x ${1:y}}', 'p{l1\r\nl2\nl3}+q[cite]', 'table>tr*2>td[title]*2', 'div#a.b>p.c>em',
                     '!', 'div>{${1:one}\n${2:two}}+img', 'p{é ü 😀}+br+a[title="t 😀"]', 'ul>li{item $}*3', 'section>p+p^^aside', 'input[disabled.]+textarea',
                     'div{  pad  \n  in  }>span']
GRID_STYLE_FIXED = ['m10+p20', '@kf', '@m', 'rawb', 'bd1-s#fc0', 'lg(to right, #0, #f00.5)', 'gtx', 'p!+rawa', 'c#f+op.5+z10', '@ff', 'bd+bg', 'kpad+foo']
GRID_CELLS = [(t, s, nl, b, ind) for (t, s) in GRID_SYNTAXES for nl in GRID_NEWLINES for b in GRID_BASE for ind in GRID_INDENT]
GRID_SIZE = len(GRID_CELLS)


def gen_c13_grid(i):
    """Cell i of the grid: one config (its peer style, holder and format options cycle with the index), a history of
    four fixed abbreviations in `positions` mode and, for markup, four abbreviations from the tree-keeping generators
    (count model / explicit fields) drawn from a generator seeded by the cell index alone."""
    t, syn, nl, base, ind = GRID_CELLS[i]
    rng = random.Random(1000003 * i + 17)
    spec = {'id': 'c0', 'holder': 'Config' if i % 3 == 2 else 'dict', 'syntax': syn}
    opts = {'output.newline': nl, 'output.baseIndent': base, 'output.indent': ind}
    ops = []
    if t == 'stylesheet':
        spec['type'] = t
        spec['snippets'] = {k: ga.STYLESHEET_USER_SNIPPETS[k] for k in ('rawa', 'rawb', 'kpad', 'gtx')}
        if i % 4 == 1:
            opts['stylesheet.json'] = True
        if i % 5 == 2:
            opts['output.format'] = False
        if i % 7 == 3:
            opts['stylesheet.between'] = ':'
            opts['stylesheet.after'] = ''
        if i % 7 == 5:
            opts['stylesheet.between'] = ':\n\t'
        if i % 7 == 6:
            opts['stylesheet.after'] = (';\n', '\n;')[(i // 7) % 2]
        fixed = GRID_STYLE_FIXED
    else:
        if i % 4 == 1:
            opts['comment.enabled'] = True
        if i % 5 == 2:
            opts['output.format'] = False
        if i % 7 == 3:
            opts['output.formatLeafNode'] = True
        if i % 6 == 4:
            opts['output.selfClosingStyle'] = ('xhtml', 'xml')[(i // 6) % 2]
        if i % 9 == 5:
            opts['output.inlineBreak'] = (i // 9) % 3
        if i % 8 == 6:
            spec['snippets'] = {k: v[0] for k, v in SNIPPET_FIELDS.items()}
        fixed = GRID_MARKUP_FIXED
    spec['options'] = opts
    spec['peer'] = {'seed': 7 * i + 1, 'style': PEER_STYLES[i % len(PEER_STYLES)]}
    for j in range(4):
        ops.append({'op': 'call', 'cfg': 'c0', 'pin': j, 'abbr': fixed[(i + 5 * j) % len(fixed)], 'c13': {'mode': 'positions'}})
    if t == 'markup':
        for j in range(4):
            op = {'op': 'call', 'cfg': 'c0', 'pin': 10 + j}
            counted_call(rng, spec, op, explicit=bool(j % 2))
            ops.append(op)
    return {'world': {'configs': {'c0': spec}, 'caches': [], 'globals': {}}, 'ops': ops, 'meta': {'grid': [t, syn, nl, base, ind]}}


def gen_c13_indexed(run_seed, index, tier=None):
    if index < GRID_SIZE:
        return gen_c13_grid(index)
    return gen_c13(run_seed)
