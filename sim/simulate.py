"""Worker-side orchestration of one simulated run:

    history (JSON) -> reference call specs (host model) -> references (one
    pristine fork each, memoised) -> concrete fault placement -> run child
    (one fork, executes the whole history, evaluates oracles) -> result.

References are history-independent by construction, so they are computed
before the run child is forked; there is no IPC during a run.
"""
import json
import sys

from . import lib
from .forkpool import fork_call, ChildError
from .hostmodel import derive, CALL_KINDS, InvalidHistory
from .runner import run_history, BASE_RECURSION_LIMIT
from .util import canon, sha
from .world import reference_call

REF_TIMEOUT = 60.0
RUN_TIMEOUT = 120.0

_ref_memo = {}
_ref_stats = {'forks': 0, 'hits': 0}
_bi = None


def builtin_syntax_snippets():
    "syntax name -> digest of the built-in per-syntax stylesheet-relevant snippet table (data read only)"
    global _bi
    if _bi is None:
        cfg = sys.modules['emmet.config']
        out = {}
        for name, layer in cfg.SYNTAX_CONFIG.items():
            sn = layer.get('snippets') if isinstance(layer, dict) else None
            if sn is not None and name not in ('markup', 'stylesheet'):
                try:
                    out[name] = sha(canon(sn))[:12]
                except (TypeError, ValueError):
                    out[name] = 'unhashable'
        _bi = out
    return _bi


def _ref_child(callspec, want_entries):
    import warnings
    warnings.showwarning = lambda *a, **k: None
    sys.setrecursionlimit(BASE_RECURSION_LIMIT)
    return reference_call(callspec, want_entries)


def get_ref(callspec, want_entries=False, dup=0):
    # (order-preserving key: two specs that differ only in dict insertion order are
    # distinct references, so nothing depends on the library being insensitive to it)
    key = (json.dumps(callspec, sort_keys=False, separators=(',', ':')), bool(want_entries), dup)
    hit = _ref_memo.get(key)
    if hit is not None:
        _ref_stats['hits'] += 1
        return hit
    if len(_ref_memo) > 40000:
        _ref_memo.clear()
    res = fork_call(_ref_child, (callspec, want_entries), timeout=REF_TIMEOUT)
    _ref_stats['forks'] += 1
    _ref_memo[key] = res
    return res


def lorem_bearing(callspec):
    if 'lorem' in callspec['abbr'].lower():
        return True
    sn = callspec['cfg'].get('snippets') or {}
    for v in sn.values():
        if isinstance(v, str) and 'lorem' in v.lower():
            return True
    for layer in (callspec.get('glob') or {}).values():
        for v in ((layer or {}).get('snippets') or {}).values():
            if isinstance(v, str) and 'lorem' in v.lower():
                return True
    return False


def resolve_fault(f, ref):
    "Turns a fault spec with fractions into a concrete placement, using the reference run"
    if not f:
        return None
    kind = f['kind']
    if kind == 'F3':
        p = ref.get('peer_n') or 0
        if p <= 0:
            return None
        out = {'kind': 'F3', 'k': min(p, 1 + int(f.get('frac', 0.0) * p))}
        if f.get('exc'):
            out['exc'] = f['exc']
        return out
    if kind == 'F4':
        return {'kind': 'F4', 'budget': int(f.get('budget', 40))}
    if kind == 'F5':
        if f.get('mode') == 'func':
            counts = ref.get('counts') or {}
            if not counts:
                return None
            funcs = sorted(counts)
            name = funcs[min(len(funcs) - 1, int(f.get('frac', 0.0) * len(funcs)))]
            k = 1 + int(f.get('frac2', 0.0) * counts[name])
            rel, qual = name.split(':', 1)
            out = {'kind': 'F5', 'mode': 'func', 'func': [rel, qual], 'k': min(k, counts[name])}
            if f.get('exc'):
                out['exc'] = f['exc']
            return out
        n = ref.get('entries') or 0
        if n <= 0:
            return None
        if 'n_abs' in f:        # exhaustive placement: this very entry (beyond the last one: does not fire)
            at = int(f['n_abs'])
        elif 'n_end' in f:      # ... counted from the last entry of the reference run
            at = max(1, n - int(f['n_end']))
        elif 'n_frac' in f:
            at = min(n, 1 + int(f['n_frac'] * n))
        else:
            at = min(n, 1 + int(f.get('frac', 0.0) * n))
        out = {'kind': 'F5', 'mode': 'nth', 'n': at}
        if f.get('exc'):
            out['exc'] = f['exc']
        return out
    raise ValueError('unknown fault kind %r' % kind)


def prepare(hist, all_refs=True):
    """(refs, faults) for a history; raises InvalidHistory for histories outside
    the assumptions (A1). With all_refs=False references are computed only
    where a fault needs them for its placement (profiles without the
    differential C08 oracle)."""
    ops = hist['ops']
    callspecs = derive(hist['world'], ops, builtin_syntax_snippets())
    refs = []
    faults = []
    for op, cs in zip(ops, callspecs):
        if op['op'] not in CALL_KINDS:
            refs.append(None)
            faults.append(None)
            continue
        f = op.get('fault') if op['op'] == 'call' else None
        if not all_refs and not (f and f['kind'] in ('F3', 'F5')):
            refs.append(None)
            faults.append(resolve_fault(f, {}) if f else None)
            continue
        want_entries = bool(f and f['kind'] == 'F5')
        r = {'fresh': get_ref(cs['fresh'], want_entries)}
        if 'none' in cs:
            r['none'] = get_ref(cs['none'])
        if lorem_bearing(cs['fresh']):
            r['fresh2'] = get_ref(cs['fresh'], want_entries, dup=1)
        refs.append(r)
        faults.append(resolve_fault(f, r['fresh']))
    return refs, faults


def strip_refs(refs):
    "References without the bulky entry histograms (the run child does not need them)"
    out = []
    for r in refs:
        if r is None:
            out.append(None)
        else:
            out.append({k: {'outcome': v['outcome'], 'peer_n': v.get('peer_n', 0), 'peer_view': v.get('peer_view')}
                        for k, v in r.items()})
    return out


def simulate(hist, props, opts=None):
    "Runs one history; returns the run child's result dict (+ 'faults', 'n_refs')"
    refs, faults = prepare(hist, all_refs=('C08' in props))
    try:
        res = fork_call(run_history, (hist, strip_refs(refs), faults, list(props), opts), timeout=RUN_TIMEOUT)
    except ChildError as err:
        if 'C08' in props and 'timed out' in str(err):
            # every reference call returned, the same calls made one after the other in one
            # interpreter did not: the history changed the behaviour of a call (it hangs)
            res = {'events': [], 'digest': sha('hang'), 'counters': {'run:hang': 1}, 'states': [], 'transitions': [],
                   'shape': 'hang', 'extra': {}, 'nontrivial': True, 'distinct_keys': [],
                   'violations': [{'property': 'C08', 'oracle': 'result', 'subkind': 'history-changes-result:any:ok->hang',
                                   'op': -1, 'detail': {'what': 'the history did not finish within %.0fs although every one of its '
                                                                'calls finished in a pristine interpreter' % RUN_TIMEOUT}}]}
        else:
            raise
    res['faults'] = faults
    return res
