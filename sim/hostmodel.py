"""Host-side model of a history: how the *caller's* objects evolve.

A history is (world spec, op list), all plain JSON. The host (an editor plugin,
say) owns config dicts, held `Config` instances, cache dicts and a global
config; between calls into py-emmet it edits, clones and rebuilds them. This
module computes, without touching the library, which self-contained *call
spec* every call op amounts to. The reference for a call is that call spec
executed in a pristine interpreter, so a wiped `text`, a tainted cache, a
mutated built-in table or a stale memo all show up as a difference.

It also checks assumption A1 (a cache dict is only ever shared between calls
whose merged stylesheet snippet table is equal); histories violating A1 are
never generated and are rejected during minimisation.
"""
from .util import canon, jcopy

SECTIONS = ('options', 'snippets', 'variables')
TOP_KEYS = ('type', 'syntax', 'text', 'context', 'maxRepeat')
CALL_KINDS = ('call', 'repeat3')

STYLESHEET_SYNTAXES = ('css', 'sass', 'scss', 'less', 'sss', 'stylus')


class InvalidHistory(Exception):
    pass


def cfg_type(spec):
    return spec.get('type', 'markup')


def cfg_syntax(spec):
    t = cfg_type(spec)
    return spec.get('syntax', 'css' if t == 'stylesheet' else 'html')


def snippet_identity(spec, glob, builtin_syntax_snippets=None):
    "Identity of the merged stylesheet snippet table a call would build (A1)"
    glob = glob or {}
    t = cfg_type(spec)
    s = cfg_syntax(spec)
    bi = None
    if builtin_syntax_snippets is not None:
        bi = builtin_syntax_snippets.get(s)
    return canon([bi,
                  (glob.get(t) or {}).get('snippets'),
                  (glob.get(s) or {}).get('snippets'),
                  spec.get('snippets') or None])


class HostModel:
    """Evolves specs over an op list. `effective(cfg)` is what a call on that
    config is, as a self-contained spec."""

    def __init__(self, world, builtin_syntax_snippets=None):
        self.cur = {}
        self.held = {}
        self.globals = {gid: jcopy(layer) for gid, layer in (world.get('globals') or {}).items()}
        self.caches = set(world.get('caches') or [])
        self.cache_ident = {}
        self.poked = {}          # cid -> snippet entries the host wrote into its resolved Config
        self.bi = builtin_syntax_snippets
        for cid, spec in (world.get('configs') or {}).items():
            self._add(cid, jcopy(spec))

    def _add(self, cid, spec):
        if cid in self.cur:
            raise InvalidHistory('duplicate config id %s' % cid)
        g = spec.get('global')
        if g is not None and g not in self.globals:
            raise InvalidHistory('config %s uses unknown global %s' % (cid, g))
        c = spec.get('cache')
        if c is not None and c not in self.caches:
            raise InvalidHistory('config %s uses unknown cache %s' % (cid, c))
        self.cur[cid] = spec
        if spec.get('holder') == 'Config':
            self._hold(cid)

    def _hold(self, cid):
        self.poked.pop(cid, None)       # a rebuilt Config is resolved afresh
        spec = self.cur[cid]
        self.held[cid] = (jcopy(spec), jcopy(self.globals.get(spec.get('global'))))

    def effective(self, cid):
        "(spec, global layer or None) that a call on config `cid` uses right now"
        if cid not in self.cur:
            raise InvalidHistory('unknown config %s' % cid)
        spec = self.cur[cid]
        if spec.get('holder') == 'Config':
            return self.held[cid]
        return spec, self.globals.get(spec.get('global'))

    def callspec(self, op, cache_mode):
        spec, glob = self.effective(op['cfg'])
        spec = jcopy(spec)
        has_cache = spec.pop('cache', None) is not None
        spec.pop('global', None)
        spec.pop('id', None)
        spec.pop('shared', None)
        return {
            'entry': op.get('entry', 'expand'),
            'abbr': op['abbr'],
            'pin': op.get('pin', 0),
            'cfg': spec,
            'glob': jcopy(glob) if glob is not None else None,
            'cache': (cache_mode if has_cache else 'none'),
        }

    def apply(self, op):
        "Applies one op to the model; returns list of call specs if it is a call op"
        kind = op['op']
        if kind in CALL_KINDS:
            spec, glob = self.effective(op['cfg'])
            entry = op.get('entry', 'expand')
            if entry == 'expand_markup' and cfg_type(spec) != 'markup':
                raise InvalidHistory('expand_markup on a stylesheet config')
            if entry == 'expand_stylesheet' and cfg_type(spec) != 'stylesheet':
                raise InvalidHistory('expand_stylesheet on a markup config')
            if spec.get('holder') == 'none' and entry != 'expand':
                raise InvalidHistory('bare expand() only via expand')
            cache = spec.get('cache')
            if cache is not None and cfg_type(spec) == 'stylesheet':
                ident = snippet_identity(spec, glob, self.bi)
                if self.poked.get(op['cfg']):
                    # the host changed the snippet table of this resolved Config by hand: for
                    # assumption A1 that is another table
                    ident = canon([ident, sorted(self.poked[op['cfg']].items())])
                prev = self.cache_ident.get(cache)
                if prev is None:
                    self.cache_ident[cache] = ident
                elif prev != ident:
                    raise InvalidHistory('A1: cache %s shared between different snippet tables' % cache)
            refs = {'fresh': self.callspec(op, 'fresh')}
            if cache is not None:
                refs['none'] = self.callspec(op, 'none')
            return refs

        if kind == 'clear_cache':
            if op['cache'] not in self.caches:
                raise InvalidHistory('unknown cache')
            self.cache_ident.pop(op['cache'], None)
        elif kind == 'set_global':
            if op['global'] not in self.globals:
                raise InvalidHistory('unknown global')
            self.globals[op['global']] = jcopy(op['layer'])
        elif kind == 'edit_cfg':
            cid = op['cfg']
            if cid not in self.cur:
                raise InvalidHistory('unknown config')
            spec = self.cur[cid]
            if spec.get('holder') == 'none':
                raise InvalidHistory('cannot edit the bare config')
            path = op['path']
            if len(path) == 1:
                if path[0] not in TOP_KEYS:
                    raise InvalidHistory('bad edit path')
                if op.get('delete'):
                    spec.pop(path[0], None)
                else:
                    spec[path[0]] = jcopy(op['value'])
            else:
                if path[0] not in SECTIONS and path[0] != 'context':
                    raise InvalidHistory('bad edit path')
                sec = spec.get(path[0])
                if sec is None:
                    sec = spec[path[0]] = {}
                if op.get('delete'):
                    sec.pop(path[1], None)
                else:
                    sec[path[1]] = jcopy(op['value'])
            if spec.get('holder') == 'Config':
                # host discipline: a held Config is rebuilt whenever the dict behind it
                # is edited (Config keeps its user dict by reference and reads some keys
                # from it at call time, others at construction; which ones is not part
                # of any contract, so the host never relies on it)
                self._hold(cid)
        elif kind == 'clone_cfg':
            src = op['src']
            if src not in self.cur:
                raise InvalidHistory('unknown config')
            spec = jcopy(self.cur[src])
            if spec.get('holder') == 'none':
                raise InvalidHistory('cannot clone the bare config')
            spec['id'] = op['dst']
            if op.get('depth') == 'deep' and spec.get('cache') is not None:
                # a deep copy gets its own copy of the cache object
                new_cache = '%s~%s' % (spec['cache'], op['dst'])
                self.caches.add(new_cache)
                if spec['cache'] in self.cache_ident:
                    self.cache_ident[new_cache] = self.cache_ident[spec['cache']]
                spec['cache'] = new_cache
            if op.get('depth') != 'deep':
                # shallow copies share their nested dicts: from now on the host
                # replaces sections instead of editing them in place
                self.cur[src]['shared'] = True
                spec['shared'] = True
            self._add(op['dst'], spec)
        elif kind == 'poke_cfg':
            cid = op['cfg']
            if cid not in self.cur or self.cur[cid].get('holder') != 'Config':
                raise InvalidHistory('poke of a config that is not held')
            if op.get('section') not in SECTIONS:
                raise InvalidHistory('bad poke section')
            if op['section'] == 'snippets':
                self.poked.setdefault(cid, {})[op['key']] = op.get('value')
        elif kind in ('soak_distinct', 'fail_census'):
            if op['cfg'] not in self.cur:
                raise InvalidHistory('unknown config')
        elif kind == 'resolve':
            if op['cfg'] not in self.cur:
                raise InvalidHistory('unknown config')
        elif kind == 'rebuild_cfg':
            cid = op['cfg']
            if cid not in self.cur or self.cur[cid].get('holder') != 'Config':
                raise InvalidHistory('rebuild of a config that is not held')
            self._hold(cid)
        else:
            raise InvalidHistory('unknown op %r' % kind)
        return None


def derive(world, ops, builtin_syntax_snippets=None):
    """Returns per-op reference call specs ({} for host ops) or raises
    InvalidHistory. Pure function of its arguments."""
    model = HostModel(world, builtin_syntax_snippets)
    out = []
    for op in ops:
        out.append(model.apply(op) or {})
    return out


def is_valid(world, ops, builtin_syntax_snippets=None):
    try:
        derive(world, ops, builtin_syntax_snippets)
        return True
    except (InvalidHistory, KeyError, TypeError, AttributeError):
        return False
