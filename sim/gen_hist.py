"""History generator: world (host objects) + op list, all JSON, from one integer.

Swarm style: every run draws its own subset of syntaxes, features, fault kinds,
fault rate, sizes and tuning knobs, so that correctness never silently depends
on one configuration. Everything is drawn from `random.Random(run_seed)`
*before* execution; execution itself draws nothing.
"""
import random

from . import gen_abbr as ga
from .gen_abbr import pick, maybe
from .hostmodel import is_valid

MARKUP_SYNTAXES = ['html', 'html', 'html', 'html', 'xml', 'xsl', 'jsx', 'js', 'pug', 'slim', 'haml', 'vue', 'svelte', 'xhtml', 'myml']
STYLE_SYNTAXES = ['css', 'css', 'css', 'sass', 'scss', 'less', 'sss', 'stylus', 'mycss']

MARKUP_OPTION_POOL = {
    'output.indent': ['\t', '  ', '    ', ''],
    'output.baseIndent': ['', '  ', '\t'],
    'output.newline': ['\n', '\r\n', '\r'],
    'output.tagCase': ['', 'upper', 'lower'],
    'output.attributeCase': ['', 'upper', 'lower'],
    'output.attributeQuotes': ['double', 'single'],
    'output.format': [True, False],
    'output.formatLeafNode': [False, True],
    'output.formatSkip': [['html'], [], ['div', 'ul']],
    'output.formatForce': [['body'], [], ['p', 'li']],
    'output.inlineBreak': [0, 1, 2, 3, 5],
    'output.compactBoolean': [False, True],
    'output.booleanAttributes': [['disabled', 'checked'], ['x', 'title']],
    'output.reverseAttributes': [False, True],
    'output.selfClosingStyle': ['html', 'xhtml', 'xml'],
    'markup.href': [True, False],
    'comment.enabled': [True, False],
    'comment.trigger': [['id', 'class'], ['class'], ['title']],
    'comment.before': ['', '<!-- [#ID] -->\n', '<!-- b -->'],
    'comment.after': ['\n<!-- /[#ID][.CLASS] -->', '<!-- /[TITLE] -->', ''],
    'bem.enabled': [True, False],
    'bem.element': ['__', '-', '::'],
    'bem.modifier': ['_', '--', '~'],
    'jsx.enabled': [True, False],
    'inlineElements': [['a', 'span', 'em', 'b', 'i', 'strong'], [], ['div', 'p', 'a']],
}

STYLE_OPTION_POOL = {
    'stylesheet.keywords': [['auto', 'inherit', 'unset', 'none'], ['auto'], []],
    'stylesheet.unitless': [[], ['z-index', 'line-height', 'opacity', 'font-weight', 'zoom', 'flex', 'flex-grow', 'flex-shrink'],
                            ['margin', 'width'], ['zoom'], ['order', 'top']],
    'stylesheet.shortHex': [True, False],
    'stylesheet.between': [': ', ':', ' ', ' = '],
    'stylesheet.after': [';', '', ' ;'],
    'stylesheet.intUnit': ['px', 'pt', 'rem', '', 'u'],
    'stylesheet.floatUnit': ['em', 'rem', '%', ''],
    'stylesheet.unitAliases': [{'e': 'em', 'p': '%', 'x': 'ex', 'r': 'rem'}, {'p': 'pt', 'e': 'ex'}, {}],
    'stylesheet.json': [False, True],
    'stylesheet.jsonDoubleQuotes': [False, True],
    'stylesheet.fuzzySearchMinScore': [0, 0.3, 0.5, 1],
    'stylesheet.skipUnmatched': [True, False],
    'output.format': [True, False],
    'output.newline': ['\n', '\r\n'],
    'output.indent': ['\t', '  '],
    'output.baseIndent': ['', '  '],
}

TEXT_LINES = ['foo', 'bar', 'baz qux', '', 'http://emmet.io', 'info@emmet.io', 'www.emmet.io', '<div>line1</div>',
              '  indented', 'a $ b', 'x${1:y}', 'tab\there', 'é ü', 'one two three', '* item', '1. num', '- dash', '$#', '\\$', '\U0001F600 x']
TEXT_STRINGS = ['foo', 'http://emmet.io', 'info@emmet.io', 'foo\nbar', '<div>foo</div>', 'a\r\nb', 'www.x.org', '  ', 'x y', 'long text here']

PEER_STYLES = ['identity', 'textmate', 'marker', 'escape', 'double', 'drop', 'upper', 'mixed']

PROBE_TEXT = ['ul>li*', 'ul>.item$*', 'img[src="$#"]*', 'div>p', 'a', 'p{$#}*', '(li>a)*', 'div>ul>li*>a']
PROBE_GENERIC = ['li.item$@-', 'h$@3+p.c$$', 'ul>li.i$*3>a', '!', 'a+img', 'p{a ${1:b}}+q[t]', 'div>p*2>span', 'label>input']
PROBE_BEM = ['div.b>div.-e_m', '.b>.-e>.--x', '.blk>.-a+.-b_m', 'ul.nav>.-item*2>a.-link', '.-e', '.-e_m', 'ul>.-item*2', 'p._m']


def subset_options(rng, pool, p):
    out = {}
    for key in sorted(pool):
        if maybe(rng, p):
            out[key] = pick(rng, pool[key])
    return out


def gen_text(rng):
    if maybe(rng, 0.7):
        n = pick(rng, [1, 2, 2, 3, 3, 4, 6])
        return [pick(rng, TEXT_LINES) for _ in range(n)]
    return pick(rng, TEXT_STRINGS)


def gen_global_layer(rng, sw):
    "Host-wide settings: options/variables per type and per syntax (+ markup snippets)"
    layer = {}
    for key in ['markup', 'stylesheet'] + [pick(rng, MARKUP_SYNTAXES), pick(rng, STYLE_SYNTAXES)]:
        if not maybe(rng, 0.6):
            continue
        part = {}
        style = key == 'stylesheet' or key in STYLE_SYNTAXES
        if maybe(rng, 0.8):
            part['options'] = subset_options(rng, STYLE_OPTION_POOL if style else MARKUP_OPTION_POOL, 0.15)
        if maybe(rng, 0.3):
            part['variables'] = {'lang': pick(rng, ['de', 'fr']), 'gv': 'G'}
        if not style and maybe(rng, 0.3):
            # A1: global layers never carry stylesheet snippets (caches are shared across them)
            part['snippets'] = {'gs': 'div.from-global', 'foo': 'span.global-foo'}
        layer[key] = part
    return layer


class Gen:
    def __init__(self, seed):
        self.rng = random.Random(seed)
        self.seed = seed

    # -- swarm configuration -------------------------------------------------------
    def swarm(self):
        rng = self.rng
        fam = pick(rng, ['markup', 'markup', 'stylesheet', 'both', 'both'])
        feats = {
            'family': fam,
            'text': maybe(rng, 0.55),
            'bem': maybe(rng, 0.3),
            'comments': maybe(rng, 0.2),
            'lorem': maybe(rng, 0.2),
            'user_snippets': maybe(rng, 0.55),
            'alias_chain': maybe(rng, 0.15),
            'poison': maybe(rng, 0.35),
            'held': maybe(rng, 0.45),
            'shared_cache': maybe(rng, 0.65),
            'global': maybe(rng, 0.3),
            'context': maybe(rng, 0.15),
            'max_repeat': maybe(rng, 0.1),
            'peer': maybe(rng, 0.35),
            'bare': maybe(rng, 0.1),
            'host_ops': maybe(rng, 0.5),
        }
        kinds = [k for k in ('F1', 'F2', 'F3', 'F4', 'F5') if maybe(rng, 0.5)]
        rate = pick(rng, [0, 0.1, 0.25, 0.25, 0.5])
        if not kinds:
            rate = 0
        feats['fault_kinds'] = kinds
        feats['fault_rate'] = rate
        r = rng.random()
        if r < 0.6:
            feats['length'] = rng.randint(2, 6)
        elif r < 0.9:
            feats['length'] = rng.randint(7, 16)
        else:
            feats['length'] = rng.randint(17, 40)
        return feats

    # -- configs -----------------------------------------------------------------
    def markup_cfg(self, cid, sw):
        rng = self.rng
        spec = {'id': cid, 'holder': 'Config' if (sw['held'] and maybe(rng, 0.6)) else 'dict'}
        if maybe(rng, 0.3):
            spec['type'] = 'markup'
        syn = pick(rng, MARKUP_SYNTAXES)
        if syn != 'html' or maybe(rng, 0.5):
            spec['syntax'] = syn
        opts = subset_options(rng, MARKUP_OPTION_POOL, 0.12)
        if sw['bem']:
            opts['bem.enabled'] = True
        elif 'bem.enabled' in opts:
            del opts['bem.enabled']
        if sw['comments']:
            opts['comment.enabled'] = True
        if opts or maybe(rng, 0.3):
            spec['options'] = opts
        sn = {}
        if sw['user_snippets']:
            keys = sorted(ga.MARKUP_USER_SNIPPETS)
            for k in keys:
                if maybe(rng, 0.45):
                    sn[k] = ga.MARKUP_USER_SNIPPETS[k]
                    if k in ('foo', 'ali', 'txt', 'imp') and maybe(rng, 0.5):
                        # the same snippet name means something else in this config
                        sn[k] = {'foo': 'section.foo-%s[bar=%s]', 'ali': 'foo.via-%s%s', 'txt': '{other %s text%s}', 'imp': '[data-%s=%s]'}[k] % (cid, cid)
            if not sw['lorem']:
                sn.pop('lor', None)
        if sw['poison'] and 'F2' in sw['fault_kinds']:
            for k in sorted(ga.MARKUP_POISON_SNIPPETS):
                if maybe(rng, 0.4):
                    sn[k] = ga.MARKUP_POISON_SNIPPETS[k]
        if sw['alias_chain']:
            sn.update(ga.alias_chain(pick(rng, [3, 10, 25, 40, 60])))
        if sn:
            spec['snippets'] = sn
        if maybe(rng, 0.2):
            spec['variables'] = {'charset': 'ru-RU', 'lang': pick(rng, ['ru', 'en-GB']), 'var': 'V'}
        if sw['text'] and maybe(rng, 0.8):
            spec['text'] = gen_text(rng)
        if (sw['context'] and maybe(rng, 0.6)) or (sw['bem'] and maybe(rng, 0.4)):
            ctx = {'name': pick(rng, ['ul', 'div', 'table', 'span', 'select'])}
            if sw['bem'] or maybe(rng, 0.3):
                ctx['attributes'] = {'class': pick(rng, ['ctx-block', 'cb cb_m', ''])}
            spec['context'] = ctx
        if sw['max_repeat'] and maybe(rng, 0.7):
            spec['maxRepeat'] = pick(rng, [1, 2, 3, 5])
        if sw['peer'] and maybe(rng, 0.7):
            spec['peer'] = {'seed': rng.randrange(1 << 16), 'style': pick(rng, PEER_STYLES)}
        return spec

    def style_cfg(self, cid, sw, cache, table):
        rng = self.rng
        spec = {'id': cid, 'holder': 'Config' if (sw['held'] and maybe(rng, 0.5)) else 'dict', 'type': 'stylesheet'}
        syn = pick(rng, STYLE_SYNTAXES)
        if syn != 'css' or maybe(rng, 0.5):
            spec['syntax'] = syn
        opts = subset_options(rng, STYLE_OPTION_POOL, 0.2)
        if opts or maybe(rng, 0.3):
            spec['options'] = opts
        if table:
            spec['snippets'] = dict(table)
        if cache is not None:
            spec['cache'] = cache
        if sw['context'] and maybe(rng, 0.6):
            spec['context'] = {'name': pick(rng, ['@@section', '@@property', '@@value', 'line-height'] + sorted(ga.VALUE_CONTEXTS))}
        if sw['peer'] and maybe(rng, 0.5):
            spec['peer'] = {'seed': rng.randrange(1 << 16), 'style': pick(rng, PEER_STYLES)}
        if maybe(rng, 0.1):
            spec['variables'] = {'x': 'y'}
        return spec

    def style_table(self, sw):
        rng = self.rng
        table = {}
        if sw['user_snippets'] or maybe(rng, 0.3):
            for k in sorted(ga.STYLESHEET_USER_SNIPPETS):
                if maybe(rng, 0.6):
                    table[k] = ga.STYLESHEET_USER_SNIPPETS[k]
                    if k in ('kmar', 'zidx', 'klh') and maybe(rng, 0.4):
                        # the same snippet name means something else in this table
                        table[k] = {'kmar': 'margin:%d %d', 'zidx': 'z-index:%d|%d', 'klh': 'line-height:%d.%d'}[k] % (
                            rng.randint(2, 9), rng.randint(2, 9))
        if sw['poison'] and 'F2' in sw['fault_kinds'] and maybe(rng, 0.3):
            k = pick(rng, sorted(ga.STYLESHEET_POISON_SNIPPETS))
            table[k] = ga.STYLESHEET_POISON_SNIPPETS[k]
        return table

    # -- abbreviations -----------------------------------------------------------------
    def abbr_for(self, spec, sw, reveal=False):
        "Returns (abbr, tags, nat) for a call on config `spec`"
        rng = self.rng
        tags = []
        nat = None
        user = sorted(spec.get('snippets') or {})
        ctx_name = (spec.get('context') or {}).get('name')
        if spec.get('type') == 'stylesheet' and ctx_name in ga.VALUE_CONTEXTS and maybe(rng, 0.7):
            # the caret is inside the value of property `ctx_name`
            return pick(rng, ga.VALUE_CONTEXTS[ctx_name][0]), tags, nat
        if spec.get('type') == 'stylesheet' and not ctx_name and sw['context'] and maybe(rng, 0.3):
            # property-level look at a property that some config completes values of
            return pick(rng, ga.VALUE_CONTEXTS[pick(rng, sorted(ga.VALUE_CONTEXTS))][1]), tags, nat
        if spec.get('type') == 'stylesheet':
            numdef = [a for a in ga.NUMDEF_STYLESHEET
                      if all((p in (spec.get('snippets') or {}) or p == 'zom') for p in a.split('+'))]
            r = rng.random()
            if (reveal and spec.get('cache') is not None and numdef) or (numdef and spec.get('cache') is not None and r < 0.45):
                abbr = pick(rng, numdef)
                tags.append('numdef')
            elif r < 0.55:
                abbr = pick(rng, ga.DEPENDENT_PROBES)
            elif r < 0.63:
                abbr = pick(rng, sorted(ga.FOLLOW_UPS))
            elif r < 0.68 and spec.get('syntax') in ga.SYNTAX_PROBES:
                abbr = pick(rng, ga.SYNTAX_PROBES[spec['syntax']])
            elif r < 0.7:
                abbr = pick(rng, ga.STYLESHEET_CORPUS)
            else:
                abbr = ga.gen_stylesheet(rng, {'user_snippets': user})
        else:
            feat = {'bem': bool((spec.get('options') or {}).get('bem.enabled')), 'lorem': sw['lorem'],
                    'text': bool(spec.get('text')), 'user_snippets': [u for u in user if not u.startswith('bad')]}
            r = rng.random()
            if reveal and spec.get('text') and maybe(rng, 0.8):
                abbr = pick(rng, PROBE_TEXT)
                tags.append('text-probe')
            elif reveal and not feat['bem'] and maybe(rng, 0.5):
                abbr = pick(rng, PROBE_GENERIC)
            elif (reveal or r < 0.25) and feat['bem']:
                abbr = pick(rng, PROBE_BEM[4:] if (spec.get('context') and maybe(rng, 0.7)) else PROBE_BEM)
            elif r < 0.1 and spec.get('syntax') in ga.SYNTAX_PROBES:
                abbr = pick(rng, ga.SYNTAX_PROBES[spec['syntax']])
            elif r < 0.35:
                abbr = pick(rng, ga.MARKUP_CORPUS)
            elif r < 0.45 and user:
                abbr = pick(rng, user)
                if maybe(rng, 0.5):
                    abbr = pick(rng, ['ul>', 'div>', '', 'p+']) + abbr + pick(rng, ['', '*2', '>span', '.x', '[a=b]'])
            elif r < 0.5 and sw['alias_chain'] and 'al0' in (spec.get('snippets') or {}):
                abbr = pick(rng, ['al0', 'div>al0', 'al0*2', 'al0>span'])
            else:
                abbr = ga.gen_markup(rng, feat)
            if not sw['lorem'] and 'lorem' in abbr:
                abbr = abbr.replace('lorem', 'lorm')
        return abbr, tags, nat

    def fault_for(self, spec, sw):
        "Draws a fault for a call (or None); may return ('F1'|'F2', ...) marker handled by caller"
        rng = self.rng
        if not sw['fault_kinds'] or not maybe(rng, sw['fault_rate']):
            return None
        kind = pick(rng, sw['fault_kinds'])
        if kind == 'F3' and not spec.get('peer'):
            kind = pick(rng, sw['fault_kinds'])
        return kind

    # -- whole history -----------------------------------------------------------------
    def history(self):
        rng = self.rng
        sw = self.swarm()
        world = {'configs': {}, 'caches': [], 'globals': {}}
        fam = sw['family']
        n_cfg = pick(rng, [1, 1, 2, 2, 3])
        if sw['global']:
            world['globals']['g0'] = gen_global_layer(rng, sw)
        # caches and their snippet tables (A1: one table per cache)
        tables = {}
        n_caches = pick(rng, [0, 1, 1, 2]) if fam != 'markup' else pick(rng, [0, 0, 1])
        for i in range(n_caches):
            cid = 'k%d' % i
            world['caches'].append(cid)
            tables[cid] = self.style_table(sw)
        kinds = []
        for i in range(n_cfg):
            if fam == 'markup':
                kinds.append('markup')
            elif fam == 'stylesheet':
                kinds.append('stylesheet')
            else:
                kinds.append(pick(rng, ['markup', 'stylesheet']))
        shared = sw['shared_cache'] and world['caches']
        for i, kind in enumerate(kinds):
            cid = 'c%d' % i
            if kind == 'stylesheet':
                cache = None
                if world['caches'] and maybe(rng, 0.85):
                    cache = world['caches'][0] if shared else pick(rng, world['caches'])
                table = tables[cache] if cache is not None else self.style_table(sw)
                spec = self.style_cfg(cid, sw, cache, table)
            else:
                spec = self.markup_cfg(cid, sw)
                if world['caches'] and maybe(rng, 0.15):
                    spec['cache'] = pick(rng, world['caches'])
            if 'g0' in world['globals'] and maybe(rng, 0.8):
                spec['global'] = 'g0'
            world['configs'][cid] = spec
        if sw['bare']:
            world['configs']['bare'] = {'id': 'bare', 'holder': 'none'}

        ops = []
        live = {cid: dict(spec) for cid, spec in world['configs'].items()}   # generator's view of current specs
        reveal_on = None
        n_clones = 0
        length = sw['length']
        while len(ops) < length:
            cids = sorted(live)
            r = rng.random()
            host_p = 0.22 if sw['host_ops'] else 0.04
            if reveal_on is not None and maybe(rng, 0.8):
                cid = reveal_on
                reveal_on = None
                spec = live[cid]
                if spec.get('holder') == 'none':
                    ops.append({'op': 'call', 'cfg': cid, 'abbr': pick(rng, ga.MARKUP_CORPUS), 'pin': rng.randrange(1000)})
                    continue
                abbr, tags, nat = self.abbr_for(spec, sw, reveal=True)
                op = {'op': 'call', 'cfg': cid, 'abbr': abbr, 'pin': rng.randrange(1000)}
                if tags:
                    op['tags'] = tags
                ops.append(op)
                continue
            reveal_on = None
            if r < host_p:
                op = self.host_op(world, live, sw, n_clones)
                if op is not None:
                    if op['op'] == 'clone_cfg':
                        n_clones += 1
                    ops.append(op)
                    # after the host touched a config, look at it
                    touched = op.get('cfg') or op.get('dst')
                    if op['op'] == 'poke_cfg':
                        # the poked Config itself has no reference any more: look at the OTHER configs
                        others = [c for c in sorted(live) if c != touched and live[c].get('holder') != 'none'
                                  and live[c].get('type', 'markup') == live[touched].get('type', 'markup')]
                        touched = pick(rng, others) if others else None
                    if touched in live and maybe(rng, 0.6):
                        reveal_on = touched
                    continue
            cid = pick(rng, cids)
            spec = live[cid]
            if spec.get('holder') == 'none':
                ops.append({'op': 'call', 'cfg': cid, 'abbr': pick(rng, ga.MARKUP_CORPUS), 'pin': rng.randrange(1000)})
                continue
            abbr, tags, nat = self.abbr_for(spec, sw)
            stype = spec.get('type', 'markup')
            if maybe(rng, 0.1):
                op = {'op': 'repeat3', 'cfg': cid, 'abbr': abbr, 'pin': rng.randrange(1000)}
                if tags:
                    op['tags'] = tags
                ops.append(op)
                continue
            op = {'op': 'call', 'cfg': cid, 'abbr': abbr, 'pin': rng.randrange(1000)}
            if maybe(rng, 0.2):
                op['entry'] = 'expand_stylesheet' if stype == 'stylesheet' else 'expand_markup'
            elif spec.get('holder') == 'Config' and spec.get('global') and maybe(rng, 0.5):
                op['pass_global'] = True
            kind = self.fault_for(spec, sw)
            if kind == 'F1':
                op['abbr'] = ga.mutate(rng, abbr)
                op['nat'] = 'F1'
                reveal_on = cid
            elif kind == 'F2':
                poison = [k for k in sorted(spec.get('snippets') or {}) if k.startswith('bad') or k in ga.STYLESHEET_POISON_SNIPPETS]
                if poison:
                    p = pick(rng, poison)
                    if stype == 'stylesheet':
                        op['abbr'] = p
                    else:
                        op['abbr'] = pick(rng, ['', 'ul>', 'div>p+', '(a>b)+']) + p + pick(rng, ['', '*2', '>em', '+p'])
                    op['nat'] = 'F2'
                    reveal_on = cid
            elif kind == 'F3':
                if spec.get('peer'):
                    op['fault'] = {'kind': 'F3', 'frac': round(rng.random(), 4)}
                    if maybe(rng, 0.5):
                        op['fault']['exc'] = pick(rng, ['TypeError', 'ValueError', 'KeyError', 'RuntimeError', 'AttributeError'])
                    reveal_on = cid
            elif kind == 'F4':
                if stype != 'stylesheet':
                    r2 = rng.random()
                    if r2 < 0.4 and 'al0' in (spec.get('snippets') or {}):
                        op['abbr'] = pick(rng, ['al0', 'div>al0', 'ul>li>al0'])
                    elif r2 < 0.8:
                        op['abbr'] = ga.gen_deep_markup(rng, rng.randint(20, 80),
                                                        {'bem': bool((spec.get('options') or {}).get('bem.enabled'))})
                    else:
                        op['abbr'] = ga.gen_nested_groups(rng, rng.randint(10, 30))
                op['fault'] = {'kind': 'F4', 'budget': pick(rng, [6, 10, 15, 20, 30, 40, 60, 90, 130, 200, 300])}
                reveal_on = cid
            elif kind == 'F5':
                mode = pick(rng, ['nth', 'func'])
                op['fault'] = {'kind': 'F5', 'mode': mode, 'frac': round(rng.random(), 5), 'frac2': round(rng.random(), 5)}
                if maybe(rng, 0.2):
                    op['fault']['exc'] = 'base'
                reveal_on = cid
            if tags:
                op['tags'] = tags
            ops.append(op)
            if op['abbr'] in ga.FOLLOW_UPS and stype == 'stylesheet' and 'fault' not in op:
                # the same keyword again with fewer / no arguments, on a config sharing the cache
                peers = [c for c in cids if live[c].get('type') == 'stylesheet' and live[c].get('cache') == spec.get('cache')
                         and (spec.get('cache') is not None or c == cid)]
                ops.append({'op': 'call', 'cfg': pick(rng, peers or [cid]), 'abbr': pick(rng, ga.FOLLOW_UPS[op['abbr']]),
                            'pin': rng.randrange(1000)})
        # closing probes: every config whose last call failed (or was faulted) is asked once
        # more, so that damage done by the last ops of a history cannot go unobserved
        last = {}
        for op in ops:
            if op['op'] in ('call', 'repeat3'):
                last[op['cfg']] = bool(op.get('fault') or op.get('nat'))
        for cid in sorted(last):
            if last[cid] and cid in live and live[cid].get('holder') != 'none':
                abbr, tags, nat = self.abbr_for(live[cid], sw, reveal=True)
                op = {'op': 'call', 'cfg': cid, 'abbr': abbr, 'pin': rng.randrange(1000), 'closing': True}
                if tags:
                    op['tags'] = tags
                ops.append(op)
        return {'world': world, 'ops': ops, 'meta': {'swarm': sw}}

    def host_op(self, world, live, sw, n_clones):
        rng = self.rng
        choices = []
        if world['caches']:
            choices.append('clear_cache')
        if world['globals']:
            choices.append('set_global')
        editable = [c for c in sorted(live) if live[c].get('holder') != 'none']
        if editable:
            choices += ['edit_cfg', 'edit_cfg']
            if n_clones < 2:
                choices.append('clone_cfg')
        held = [c for c in sorted(live) if live[c].get('holder') == 'Config']
        if held:
            choices.append('rebuild_cfg')
            if maybe(rng, 0.5):
                choices.append('poke_cfg')
        if not choices:
            return None
        kind = pick(rng, choices)
        if kind == 'clear_cache':
            return {'op': 'clear_cache', 'cache': pick(rng, world['caches'])}
        if kind == 'set_global':
            return {'op': 'set_global', 'global': 'g0', 'layer': gen_global_layer(rng, sw)}
        if kind == 'rebuild_cfg':
            return {'op': 'rebuild_cfg', 'cfg': pick(rng, held)}
        if kind == 'poke_cfg':
            cid = pick(rng, held)
            style = live[cid].get('type') == 'stylesheet'
            sec, key, val = pick(rng, [('options', 'stylesheet.intUnit', 'pk'), ('options', 'stylesheet.after', ' /*pk*/;'),
                                       ('snippets', 'm', 'margin-poked:1'), ('variables', 'lang', 'pk')] if style else
                                 [('options', 'output.indent', '<pk>'), ('options', 'output.selfClosingStyle', 'xml'),
                                  ('snippets', 'a', 'a.poked'), ('snippets', 'img', 'img.poked'), ('variables', 'lang', 'pk'),
                                  ('variables', 'charset', 'pk')])
            return {'op': 'poke_cfg', 'cfg': cid, 'section': sec, 'key': key, 'value': val}
        if kind == 'clone_cfg':
            src = pick(rng, editable)
            dst = '%sx%d' % (src, n_clones)
            if dst in live:
                return None
            depth = pick(rng, ['shallow', 'deep'])
            spec = dict(live[src])
            spec['id'] = dst
            if depth == 'deep' and spec.get('cache') is not None:
                spec['cache'] = '%s~%s' % (spec['cache'], dst)
            live[dst] = spec
            return {'op': 'clone_cfg', 'src': src, 'dst': dst, 'depth': depth}
        # edit_cfg
        cid = pick(rng, editable)
        spec = live[cid]
        stype = spec.get('type', 'markup')
        pool = STYLE_OPTION_POOL if stype == 'stylesheet' else MARKUP_OPTION_POOL
        r = rng.random()
        if spec.get('context') and maybe(rng, 0.35):
            r = 0.7     # context edit (below)
        if r < 0.65:
            key = pick(rng, sorted(pool))
            if key == 'bem.enabled' and not sw['bem']:
                key = 'output.indent'
            op = {'op': 'edit_cfg', 'cfg': cid, 'path': ['options', key], 'value': pick(rng, pool[key]),
                  'inplace': maybe(rng, 0.5)}
            if maybe(rng, 0.15):
                op = {'op': 'edit_cfg', 'cfg': cid, 'path': ['options', key], 'delete': True, 'inplace': maybe(rng, 0.5)}
            return op
        if r < 0.72 and spec.get('context'):
            # the editor moved the caret: the context changes, in place or by a new dict
            if stype == 'stylesheet':
                name = pick(rng, ['@@section', '@@property', '@@value', 'line-height'] + sorted(ga.VALUE_CONTEXTS))
                if maybe(rng, 0.5):
                    return {'op': 'edit_cfg', 'cfg': cid, 'path': ['context', 'name'], 'value': name, 'inplace': True}
                return {'op': 'edit_cfg', 'cfg': cid, 'path': ['context'], 'value': {'name': name}}
            attrs = {'class': pick(rng, ['ctx-block', 'cb cb_m', 'other', 'nav', ''])}
            r2 = rng.random()
            if r2 < 0.4:
                return {'op': 'edit_cfg', 'cfg': cid, 'path': ['context', 'attributes'], 'value': attrs, 'inplace': True}
            if r2 < 0.6:
                return {'op': 'edit_cfg', 'cfg': cid, 'path': ['context', 'name'], 'value': pick(rng, ['ul', 'div', 'table', 'span', 'select']), 'inplace': True}
            return {'op': 'edit_cfg', 'cfg': cid, 'path': ['context'], 'value': {'name': pick(rng, ['ul', 'div', 'p']), 'attributes': attrs}}
        if r < 0.8 and stype != 'stylesheet':
            if maybe(rng, 0.25):
                return {'op': 'edit_cfg', 'cfg': cid, 'path': ['text'], 'delete': True}
            return {'op': 'edit_cfg', 'cfg': cid, 'path': ['text'], 'value': gen_text(rng)}
        if r < 0.9 and stype != 'stylesheet':
            k = pick(rng, sorted(ga.MARKUP_USER_SNIPPETS))
            return {'op': 'edit_cfg', 'cfg': cid, 'path': ['snippets', k], 'value': ga.MARKUP_USER_SNIPPETS[k],
                    'inplace': maybe(rng, 0.5)}
        if r < 0.95:
            return {'op': 'edit_cfg', 'cfg': cid, 'path': ['variables', pick(rng, ['lang', 'charset', 'var'])],
                    'value': pick(rng, ['zz', 'A-B']), 'inplace': maybe(rng, 0.5)}
        syn = pick(rng, STYLE_SYNTAXES if stype == 'stylesheet' else MARKUP_SYNTAXES)
        return {'op': 'edit_cfg', 'cfg': cid, 'path': ['syntax'], 'value': syn}


def gen_c08(run_seed):
    """History for the C08 profile. Regenerates (deterministically) in the rare
    case the draw violates assumption A1."""
    for attempt in range(20):
        hist = Gen(run_seed * 32 + attempt if attempt else run_seed).history()
        if is_valid(hist['world'], hist['ops']):
            hist['meta']['attempt'] = attempt
            return hist
    raise RuntimeError('could not generate a valid history for seed %r' % run_seed)


def gen_c08_indexed(run_seed, index, tier='quick'):
    "The first sweep_size(tier) run indices are the systematic fault sweep, the rest seeded histories"
    from . import gen_sweep
    n = gen_sweep.sweep_size(tier)
    if index < n:
        return gen_sweep.gen_sweep(tier, index)
    return gen_c08(run_seed)
