"""Deterministic simulation with fault injection for py-emmet (see /verif/DESIGN.md)."""
