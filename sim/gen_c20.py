"""Workload for C20: a host whose settings (global config) are reloaded between
calls, with user layers that do or do not mention a key, for every known
syntax of both types plus unknown names. Layer values are tagged with the layer
they come from (GT = global/type, GS = global/syntax, U = user) so that a wrong
winner is visible by name, in the resolved Config and in expand output."""
import random

from .gen_abbr import pick, maybe
from . import gen_abbr as ga

MARKUP = ['html', 'xml', 'xsl', 'jsx', 'js', 'pug', 'slim', 'haml', 'vue', 'svelte']
STYLE = ['css', 'sass', 'scss', 'less', 'sss', 'stylus']
UNKNOWN = {'markup': 'myml', 'stylesheet': 'mycss'}
# unknown names that are near misses of known ones (case variants, prefixes, suffixes): they are
# unknown all the same and fall back to the type's defaults
NEAR = {'markup': ['JSX', 'Vue', 'Html', 'XSL', 'js x', 'htm', 'pugs', 'xhtml5'], 'stylesheet': ['SASS', 'Stylus', 'Css', 'cs', 'scss2', 'les']}

TAGN = {'GT': 1, 'GS': 2, 'U': 3, 'GX': 4}


FALSY = {'output.indent': '', 'output.inlineBreak': 0, 'stylesheet.unitless': [], 'stylesheet.keywords': [], 'inlineElements': [],
         'output.formatSkip': [], 'output.booleanAttributes': [], 'stylesheet.after': '', 'stylesheet.intUnit': '', 'custom.flag': None,
         'output.tagCase': '', 'stylesheet.floatUnit': ''}


def option_value(key, tag, n):
    t = '%s%d' % (tag, n)
    if key in FALSY and (TAGN[tag] * 7 + n) % 5 == 0:
        # a layer may well define a falsy value: it still wins over less specific layers
        return FALSY[key]
    if key == 'inlineElements':
        return ['span', 'a', 'span', t.lower(), 'em']
    if key == 'output.formatSkip':
        return ['html', t.lower(), 'body']
    if key == 'output.booleanAttributes':
        return ['disabled', 'checked', t.lower(), 'checked']
    if key == 'stylesheet.keywords':
        return ['none', 'auto', t.lower(), 'auto']
    if key == 'output.indent':
        return '<%s>' % t
    if key == 'output.baseIndent':
        return pick_by(tag, ['', '  ', '\t', ' '])
    if key == 'output.selfClosingStyle':
        return pick_by(tag, ['xhtml', 'xml', 'html', 'xhtml'], n)
    if key == 'output.attributeQuotes':
        return pick_by(tag, ['single', 'double', 'single', 'double'], n)
    if key in ('jsx.enabled', 'comment.enabled', 'bem.enabled', 'output.compactBoolean', 'stylesheet.shortHex',
               'stylesheet.json', 'output.format', 'markup.href'):
        return (TAGN[tag] + n) % 2 == 0
    if key == 'markup.attributes':
        return {'class': '%sClass' % t, 'for': '%sFor' % t}
    if key == 'markup.valuePrefix':
        return {'class*': '%sstyles' % t}
    if key == 'stylesheet.after':
        return ';/*%s*/' % t
    if key == 'stylesheet.between':
        return ':%s ' % t
    if key == 'stylesheet.intUnit':
        return t.lower()
    if key == 'stylesheet.floatUnit':
        return 'f' + t.lower()
    if key == 'stylesheet.unitless':
        return ['z-index', 'margin'] if TAGN[tag] % 2 else ['zoom']
    if key == 'output.tagCase':
        return pick_by(tag, ['upper', 'lower', '', 'upper'], n)
    if key == 'output.inlineBreak':
        return TAGN[tag] + n
    return t     # 'custom.flag' and anything else


def pick_by(tag, vals, n=0):
    return vals[(TAGN[tag] + n) % len(vals)]


MARKUP_OPTION_KEYS = ['output.indent', 'output.baseIndent', 'output.selfClosingStyle', 'output.attributeQuotes', 'jsx.enabled',
                      'comment.enabled', 'markup.attributes', 'markup.valuePrefix', 'output.tagCase', 'output.compactBoolean',
                      'custom.flag', 'output.inlineBreak', 'markup.href', 'bem.enabled', 'inlineElements', 'output.formatSkip',
                      'output.booleanAttributes']
STYLE_OPTION_KEYS = ['stylesheet.after', 'stylesheet.between', 'stylesheet.intUnit', 'stylesheet.floatUnit', 'stylesheet.unitless',
                     'stylesheet.shortHex', 'stylesheet.json', 'output.indent', 'output.format', 'custom.flag', 'stylesheet.keywords']
MARKUP_SNIPPET_KEYS = ['a', 'zz', 'tm', '!!!', 'link', 'img', 'bq', 'zy|zx', 'a|zw']
STYLE_SNIPPET_KEYS = ['m', 'zz', 'bd', 'p', 'pos', 'zy|zx']
VARIABLE_KEYS = ['lang', 'vv', 'charset', 'locale']


def snippet_value(style, key, tag, n):
    t = ('%s%d' % (tag, n)).lower()
    if style:
        num = TAGN[tag] * 10 + n
        if '|' in key:
            return 'z-index:%d' % (num + 100)
        if key == 'm':
            return 'margin:%d' % num
        if key == 'p':
            return 'padding:%d %d' % (num, num)
        if key == 'bd':
            return 'border:${1:%dpx} ${2:solid}' % num
        if key == 'pos':
            return 'position:%s|relative' % t
        return 'z-index:%d' % num
    if '|' in key:
        return 'div.%s-%s' % (key.replace('|', '-'), t)
    if key == '!!!':
        return '{<!-- %s -->}' % t
    if key == 'tm':
        return 'xsl:template.%s[match]' % t
    if key == 'link':
        return 'link.%s[href]/' % t
    if key == 'img':
        return 'img.%s[src]/' % t
    return '%s.%s' % ('div' if key == 'zz' else key, t)


def layer_part(rng, style, tag, n, p=0.5):
    "One {options, snippets, variables} part with tagged values; every candidate key is mentioned with probability p"
    part = {}
    opts = {}
    for k in (STYLE_OPTION_KEYS if style else MARKUP_OPTION_KEYS):
        if maybe(rng, p * 0.6):
            opts[k] = option_value(k, tag, n)
    if opts or maybe(rng, 0.3):
        part['options'] = opts
    sn = {}
    for k in (STYLE_SNIPPET_KEYS if style else MARKUP_SNIPPET_KEYS):
        if maybe(rng, p * 0.6):
            sn[k] = snippet_value(style, k, tag, n)
    if sn or maybe(rng, 0.2):
        part['snippets'] = sn
    va = {}
    for k in VARIABLE_KEYS:
        if maybe(rng, p * 0.6):
            va[k] = '%s%d' % (tag, n)
    if va or maybe(rng, 0.2):
        part['variables'] = va
    return part


def gen_global(rng, cfg_specs, n):
    layer = {}
    for spec in cfg_specs:
        t = spec.get('type', 'markup')
        s = spec.get('syntax', 'css' if t == 'stylesheet' else 'html')
        style = t == 'stylesheet'
        if maybe(rng, 0.7):
            layer[t] = layer_part(rng, style, 'GT', n)
        if maybe(rng, 0.7):
            layer[s] = layer_part(rng, style, 'GS', n)
        if s.lower() != s or s.lower() in MARKUP + STYLE:
            # a section for the similarly named syntax must not matter for this one (and vice versa)
            for near in set([s.lower(), s.upper(), s.capitalize()]) - set([s]):
                if maybe(rng, 0.5) and near not in layer:
                    layer[near] = layer_part(rng, style, 'GX', n)
        for other in (MARKUP + STYLE):
            if other != s and (other in s or s in other) and other not in layer and maybe(rng, 0.4):
                layer[other] = layer_part(rng, other in STYLE, 'GX', n)
    # layers for unrelated types/syntaxes must not influence anything
    types = set(sp.get('type', 'markup') for sp in cfg_specs)
    syntaxes = set(sp.get('syntax', 'css' if sp.get('type') == 'stylesheet' else 'html') for sp in cfg_specs)
    for other in (pick(rng, MARKUP + STYLE), pick(rng, ['markup', 'stylesheet', 'nosuch'])):
        if other not in layer and maybe(rng, 0.5):
            tag = 'GT' if other in types else ('GS' if other in syntaxes else 'GX')
            layer[other] = layer_part(rng, other in STYLE or other == 'stylesheet', tag, n)
    return layer


MARKUP_ABBRS = ['!', 'doc', 'ul>li.item[title]', 'zz', 'a', 'img', 'div[lang=${lang}]', 'div{${charset}}', 'tm', '!!!', 'input[disabled.]',
                'div.c/', 'link', 'bq>p', 'label[for=x].y', '..cls', 'p>span*2', 'div{${locale}}>zz', 'section>(a+img)*2', 'br+hr',
                'html>body>div>p', 'p>a+em+span+b', 'input[checked title]', 'div>span*4', 'ul>li*2>a', 'table>tr>td', 'zy+zx', 'zw>a']
STYLE_ABBRS = ['m10', 'zz', 'm', 'p10+m5', 'bd', 'c#f', 'p', 'pos', 'w1.5', 'z5+zz', 'm1.5-2', 'lh2', 'bd+m+p', 'posr', 'c#fc0.5',
               'm:a', 'd:n', 'p-a', 'zom+z5', 'fw5', 'm0-auto', 'w10+h.5', 'zy+zx', 'w10vh+m5px', 'h2vmin', 'm1e+p2x']


def gen_c20(run_seed):
    rng = random.Random(run_seed)
    world = {'configs': {}, 'caches': [], 'globals': {}}
    n_cfg = pick(rng, [1, 1, 2])
    specs = []
    cross = maybe(rng, 0.25)    # the same syntax name under both types / names of the other type
    for ci in range(n_cfg):
        cid = 'c%d' % ci
        style = maybe(rng, 0.4)
        t = 'stylesheet' if style else 'markup'
        r = rng.random()
        if r < 0.08:
            # the host passes an empty config (or none at all): everything comes from the other layers
            spec = {'id': cid, 'holder': 'dict' if maybe(rng, 0.6) else 'none', 'global': 'g0'}
            specs.append(spec)
            world['configs'][cid] = spec
            continue
        names = (STYLE if style else MARKUP) + [UNKNOWN[t]] + [pick(rng, NEAR[t])]
        if cross:
            names = names + ['anysyn', 'anysyn'] + (MARKUP[:3] if style else STYLE[:3])
        s = pick(rng, names)
        spec = {'id': cid, 'holder': 'dict' if maybe(rng, 0.8) else 'Config'}
        if style or maybe(rng, 0.4):
            spec['type'] = t
        default_syntax = 'css' if style else 'html'
        if s != default_syntax or maybe(rng, 0.5):
            spec['syntax'] = s
        spec.update(layer_part(rng, style, 'U', 0, p=pick(rng, [0.0, 0.2, 0.5, 0.8])))
        if not style and maybe(rng, 0.2):
            spec['text'] = pick(rng, [['foo', 'bar'], 'txt'])
        spec['global'] = 'g0'
        specs.append(spec)
        world['configs'][cid] = spec
    world['globals']['g0'] = gen_global(rng, specs, 0) if maybe(rng, 0.85) else {}

    ops = []
    length = rng.randint(3, 12)
    gen_n = 0
    fault_rate = pick(rng, [0, 0.1, 0.25])
    cur = {s['id']: dict(s) for s in specs}
    while len(ops) < length:
        cid = pick(rng, sorted(cur))
        spec = cur[cid]
        style = spec.get('type') == 'stylesheet'
        r = rng.random()
        if spec.get('holder') == 'none' and not (r < 0.6 or 0.6 <= r < 0.78):
            continue
        if spec.get('holder') == 'none' and r < 0.33:
            r = 0.5   # nothing to resolve: call instead
        if r < 0.33:
            op = {'op': 'resolve', 'cfg': cid}
            if maybe(rng, 0.3):
                op['poke'] = True
            ops.append(op)
        elif r < 0.6:
            pool = STYLE_ABBRS if style else MARKUP_ABBRS
            abbr = '+'.join(pick(rng, pool) for _ in range(pick(rng, [1, 1, 2, 3])))
            op = {'op': 'call', 'cfg': cid, 'abbr': abbr, 'pin': rng.randrange(100), 'c20': True}
            if spec.get('holder') != 'none' and spec.get('type') is not None and maybe(rng, 0.2):
                # the host builds the Config itself and uses the type-specific entry point
                op['entry'] = 'expand_stylesheet' if style else 'expand_markup'
            if maybe(rng, fault_rate):
                if maybe(rng, 0.5):
                    op['abbr'] = ga.mutate(rng, abbr)
                    op['nat'] = 'F1'
                else:
                    op['fault'] = {'kind': 'F5', 'mode': pick(rng, ['nth', 'func']), 'frac': round(rng.random(), 5), 'frac2': round(rng.random(), 5)}
            ops.append(op)
        elif r < 0.78:
            gen_n += 1
            # (sometimes the settings are reset to nothing at all)
            layer = {} if maybe(rng, 0.2) else gen_global(rng, list(cur.values()), gen_n)
            ops.append({'op': 'set_global', 'global': 'g0', 'layer': layer})
        elif r < 0.95:
            gen_n += 1
            sec = pick(rng, ['options', 'options', 'snippets', 'variables'])
            if sec == 'options':
                key = pick(rng, STYLE_OPTION_KEYS if style else MARKUP_OPTION_KEYS)
                val = option_value(key, 'U', gen_n)
            elif sec == 'snippets':
                key = pick(rng, STYLE_SNIPPET_KEYS if style else MARKUP_SNIPPET_KEYS)
                val = snippet_value(style, key, 'U', gen_n)
            else:
                key = pick(rng, VARIABLE_KEYS)
                val = 'U%d' % gen_n
            op = {'op': 'edit_cfg', 'cfg': cid, 'path': [sec, key], 'inplace': maybe(rng, 0.5)}
            if maybe(rng, 0.3):
                op['delete'] = True
            else:
                op['value'] = val
            ops.append(op)
        elif cross and maybe(rng, 0.4):
            # the host switches the abbreviation type of this config, keeping the syntax name
            t2 = 'markup' if style else 'stylesheet'
            spec['type'] = t2
            ops.append({'op': 'edit_cfg', 'cfg': cid, 'path': ['type'], 'value': t2})
        else:
            names = (STYLE if style else MARKUP) + [UNKNOWN['stylesheet' if style else 'markup']]
            if cross:
                names = names + ['anysyn', 'anysyn'] + (MARKUP[:3] if style else STYLE[:3])
            s = pick(rng, names)
            spec['syntax'] = s
            ops.append({'op': 'edit_cfg', 'cfg': cid, 'path': ['syntax'], 'value': s})
    return {'world': world, 'ops': ops, 'meta': {}}


# ---------------------------------------------------------------------------
# exhaustive grid: every syntax name x key kind x candidate key x subset of the
# three caller-controlled layers (the two built-in layers are varied by the choice
# of (syntax, key) pairs the built-in tables do / do not define)

GRID_NAMES = [('markup', s) for s in MARKUP] + [('stylesheet', s) for s in STYLE] + \
             [('markup', UNKNOWN['markup']), ('stylesheet', UNKNOWN['stylesheet']), ('markup', 'JSX'), ('stylesheet', 'SASS')]
GRID_KEYS = {
    ('markup', 'options'): ['output.selfClosingStyle', 'jsx.enabled', 'markup.attributes', 'output.indent', 'custom.flag'],
    ('stylesheet', 'options'): ['stylesheet.after', 'stylesheet.between', 'stylesheet.intUnit', 'custom.flag'],
    ('markup', 'snippets'): ['a', 'tm', '!!!', 'zz'],
    ('stylesheet', 'snippets'): ['m', 'zz'],
    ('markup', 'variables'): ['lang', 'vv'],
    ('stylesheet', 'variables'): ['lang', 'vv'],
}
GRID_SIZE = len(GRID_NAMES) * 3


def grid_abbr(t, kind, key):
    if t == 'stylesheet':
        if kind == 'snippets':
            return key + '+p10'
        return 'm10+w1.5+zz'
    if kind == 'snippets':
        return key + '+br'
    if kind == 'variables':
        return 'div[title=${%s}]+br' % key
    return 'br+div.c[for=x]>span..d'


def gen_c20_grid(index):
    "Deterministic grid history number `index` (0 <= index < GRID_SIZE)"
    t, s = GRID_NAMES[index // 3]
    kind = ('options', 'snippets', 'variables')[index % 3]
    style = t == 'stylesheet'
    spec = {'id': 'c0', 'holder': 'dict', 'type': t, 'syntax': s, 'global': 'g0'}
    world = {'configs': {'c0': spec}, 'caches': [], 'globals': {'g0': {}}}
    ops = []
    n = 0
    for key in GRID_KEYS[(t, kind)]:
        for bits in range(8):
            n += 1
            gt, gs, u = bits & 1, bits & 2, bits & 4

            def val(tag):
                if kind == 'options':
                    return option_value(key, tag, n)
                if kind == 'snippets':
                    return snippet_value(style, key, tag, n)
                return '%s%d' % (tag, n)
            layer = {'nosuch': {kind: {key: val('GX')}}}
            if s.lower() != s:
                layer[s.lower()] = {kind: {key: val('GX')}}
            other = 'stylesheet' if not style else 'markup'
            layer[other] = {kind: {key: val('GX')}}
            if gt:
                layer[t] = {kind: {key: val('GT')}}
            if gs:
                layer[s] = {kind: {key: val('GS')}}
            ops.append({'op': 'set_global', 'global': 'g0', 'layer': layer})
            if u:
                ops.append({'op': 'edit_cfg', 'cfg': 'c0', 'path': [kind, key], 'value': val('U'), 'inplace': bool(n % 2)})
            else:
                ops.append({'op': 'edit_cfg', 'cfg': 'c0', 'path': [kind, key], 'delete': True, 'inplace': bool(n % 2)})
            ops.append({'op': 'resolve', 'cfg': 'c0', 'poke': bits in (0, 5)})
            ops.append({'op': 'call', 'cfg': 'c0', 'abbr': grid_abbr(t, kind, key), 'pin': 0, 'c20': True})
    return {'world': world, 'ops': ops, 'meta': {'grid': [t, s, kind]}}




# ---------------------------------------------------------------------------
# witnesses: (type, section, key, v1, v2, abbreviation, extra user config) such that the documented
# meaning of the key makes expand(abbreviation) differ between v1 and v2 (validated on the pinned
# tree). Whatever layer a value comes from, it must have its effect on the OUTPUT: this catches code
# that reads an option from the wrong place (the raw user layer, a module constant captured at import,
# a stale copy) although the resolved Config is right.
WITNESSES = [
    ('markup', 'options', 'output.indent', '\t', '  ', 'div>p', {}),
    ('markup', 'options', 'output.baseIndent', '', '  ', 'div>p', {}),
    ('markup', 'options', 'output.newline', '\n', '\r\n', 'div>p', {}),
    ('markup', 'options', 'output.tagCase', '', 'upper', 'div', {}),
    ('markup', 'options', 'output.attributeCase', '', 'upper', 'div[title=a]', {}),
    ('markup', 'options', 'output.attributeQuotes', 'double', 'single', 'div[title=a]', {}),
    ('markup', 'options', 'output.format', True, False, 'div>p', {}),
    ('markup', 'options', 'output.formatLeafNode', False, True, 'div>p', {}),
    ('markup', 'options', 'output.formatSkip', ['html'], [], 'html>body>p', {}),
    ('markup', 'options', 'output.formatForce', ['body'], [], 'div>body', {}),
    ('markup', 'options', 'output.inlineBreak', 3, 0, 'p>a+b+i', {}),
    ('markup', 'options', 'output.compactBoolean', False, True, 'input[disabled.]', {}),
    ('markup', 'options', 'output.booleanAttributes', ['disabled'], ['foo'], 'div[foo]', {}),
    ('markup', 'options', 'output.reverseAttributes', False, True, 'a[title=x]', {}),
    ('markup', 'options', 'output.selfClosingStyle', 'html', 'xhtml', 'br', {}),
    ('markup', 'options', 'markup.href', True, False, 'a', {'text': 'http://emmet.io'}),
    ('markup', 'options', 'comment.enabled', False, True, 'div#a', {}),
    ('markup', 'options', 'comment.trigger', ['id', 'class'], ['id'], 'div.a', {'options': {'comment.enabled': True}}),
    ('markup', 'options', 'comment.before', '', '<!-- b -->', 'div#a', {'options': {'comment.enabled': True}}),
    ('markup', 'options', 'comment.after', '\n<!-- /[#ID][.CLASS] -->', '<!-- e -->', 'div#a', {'options': {'comment.enabled': True}}),
    ('markup', 'options', 'bem.enabled', False, True, '.b>.-e', {}),
    ('markup', 'options', 'bem.element', '__', '-', '.b>.-e', {'options': {'bem.enabled': True}}),
    ('markup', 'options', 'bem.modifier', '_', '--', '.b_m', {'options': {'bem.enabled': True}}),
    ('markup', 'options', 'jsx.enabled', False, True, 'Foo.Bar', {}),
    ('markup', 'options', 'inlineElements', ['span', 'b', 'a'], [], 'div>span+b', {}),
    ('markup', 'options', 'markup.attributes', {'class': 'klass'}, {'class': 'className'}, 'div.a', {}),
    ('markup', 'variables', 'lang', 'en', 'de', 'html[lang=${lang}]', {}),
    ('markup', 'variables', 'charset', 'UTF-8', 'latin1', '!', {}),
    ('markup', 'snippets', 'a', 'a[href]', 'a.x', 'a', {}),
    ('markup', 'snippets', 'zz', 'div.z1', 'div.z2', 'ul>zz', {}),
    ('stylesheet', 'options', 'stylesheet.between', ': ', ':', 'm10', {}),
    ('stylesheet', 'options', 'stylesheet.after', ';', '', 'm10', {}),
    ('stylesheet', 'options', 'stylesheet.intUnit', 'px', 'pt', 'm10', {}),
    ('stylesheet', 'options', 'stylesheet.floatUnit', 'em', 'rem', 'm1.5', {}),
    ('stylesheet', 'options', 'stylesheet.unitAliases', {'p': '%'}, {'p': 'pt'}, 'm10p', {}),
    ('stylesheet', 'options', 'stylesheet.unitless', ['z-index'], [], 'z10', {}),
    ('stylesheet', 'options', 'stylesheet.keywords', ['auto'], [], 'm:a', {}),
    ('stylesheet', 'options', 'stylesheet.shortHex', True, False, 'c#fff', {}),
    ('stylesheet', 'options', 'stylesheet.json', False, True, 'm10', {}),
    ('stylesheet', 'options', 'stylesheet.jsonDoubleQuotes', False, True, 'd:b', {'options': {'stylesheet.json': True}}),
    ('stylesheet', 'options', 'stylesheet.fuzzySearchMinScore', 0, 1, 'mrgn10', {}),
    ('stylesheet', 'options', 'stylesheet.skipUnmatched', True, False, 'xyz', {}),
    ('stylesheet', 'options', 'output.format', True, False, 'm10+p5', {}),
    ('stylesheet', 'options', 'output.newline', '\n', '\r\n', 'm10+p5', {}),
    ('stylesheet', 'options', 'output.baseIndent', '', '  ', 'm10+p5', {}),
    ('stylesheet', 'snippets', 'm', 'margin', 'margin-x', 'm10', {}),
    # one witness per place where a key is consumed (several places read the same option)
    ('markup', 'options', 'inlineElements', ['foo'], [], 'foo>.bar', {}),
    ('markup', 'options', 'inlineElements', ['div'], [], 'p{<div>x</div>}', {}),
    ('markup', 'options', 'jsx.enabled', False, True, '..foo', {'options': {'markup.attributes': {'class*': 'styleName'}, 'markup.valuePrefix': {'class*': 'styles'}}}),
    ('markup', 'options', 'jsx.enabled', False, True, 'div.{a.b}', {}),
    ('markup', 'options', 'output.selfClosingStyle', 'html', 'xhtml', 'input[disabled.]', {'options': {'output.compactBoolean': True}}),
    ('markup', 'options', 'output.selfClosingStyle', 'html', 'xml', 'br', {'syntax': 'pug'}),
    ('markup', 'options', 'output.reverseAttributes', False, True, 'a[href=x title=y href=z]', {}),
    ('markup', 'options', 'markup.valuePrefix', {'class*': 's1'}, {'class*': 's2'}, '..foo', {'options': {'markup.attributes': {'class*': 'styleName'}}}),
    ('markup', 'options', 'output.booleanAttributes', ['disabled'], ['foo'], 'div[foo]', {'syntax': 'pug'}),
    ('markup', 'options', 'output.compactBoolean', False, True, 'input[disabled.]', {'syntax': 'haml'}),
    ('markup', 'options', 'output.attributeQuotes', 'double', 'single', 'div[title=a]', {'syntax': 'slim'}),
    ('markup', 'options', 'output.attributeCase', '', 'upper', 'div[title=a]', {'syntax': 'pug'}),
    ('markup', 'options', 'output.tagCase', '', 'upper', 'div>p', {'options': {'comment.enabled': True}}),
    ('markup', 'options', 'output.indent', '\t', '  ', 'div>p', {'syntax': 'pug'}),
    ('markup', 'options', 'output.newline', '\n', '\r\n', 'p{a\nb}', {}),
    ('markup', 'options', 'output.baseIndent', '', '  ', 'p{a\nb}', {'syntax': 'haml'}),
    ('markup', 'options', 'output.formatSkip', ['html'], ['div'], 'div>p', {}),
    ('markup', 'options', 'output.formatForce', ['body'], ['p'], 'div>p', {}),
    ('markup', 'options', 'output.inlineBreak', 3, 2, 'p>a+b', {}),
    ('markup', 'options', 'bem.element', '__', '-', '.b>.-e>.--f', {'options': {'bem.enabled': True}}),
    ('markup', 'options', 'bem.modifier', '_', '--', '.b>.-e_m', {'options': {'bem.enabled': True}}),
    ('markup', 'variables', 'lang', 'en', 'de', '!', {}),
    ('markup', 'variables', 'lang', 'en', 'de', 'doc', {'syntax': 'pug'}),
    ('markup', 'snippets', 'link', 'link[rel=stylesheet href]/', 'link.x/', 'link:css', {}),
    ('markup', 'snippets', 'zz', 'div.z1', 'div.z2', 'zq', {'snippets': {'zq': 'zz>p'}}),
    ('stylesheet', 'options', 'stylesheet.shortHex', True, False, 'cola', {'snippets': {'cola': 'color:#ff0000|#00ff00'}}),
    ('stylesheet', 'options', 'stylesheet.shortHex', True, False, 'c#ffffff', {}),
    ('stylesheet', 'options', 'stylesheet.skipUnmatched', True, False, 'dzz', {}),
    ('stylesheet', 'options', 'stylesheet.skipUnmatched', True, False, 'm10+xyz+p5', {}),
    ('stylesheet', 'options', 'stylesheet.json', False, True, 'mt', {}),
    ('stylesheet', 'options', 'stylesheet.json', False, True, 'd:b', {}),
    ('stylesheet', 'options', 'stylesheet.keywords', ['auto'], [], 'a', {'context': {'name': 'margin'}}),
    ('stylesheet', 'options', 'stylesheet.unitless', ['zoom'], [], 'zom2', {}),
    ('stylesheet', 'options', 'stylesheet.unitAliases', {'e': 'em'}, {'e': 'ex'}, 'm1e+p2e', {}),
    ('stylesheet', 'options', 'stylesheet.intUnit', 'px', 'pt', '10', {'context': {'name': 'margin'}}),
    ('stylesheet', 'options', 'stylesheet.floatUnit', 'em', 'rem', '1.5', {'context': {'name': 'margin'}}),
    ('stylesheet', 'options', 'stylesheet.fuzzySearchMinScore', 0, 1, 'a', {'context': {'name': 'margin'}}),
    ('stylesheet', 'options', 'stylesheet.between', ': ', ':', 'm10', {'syntax': 'scss'}),
    ('stylesheet', 'options', 'stylesheet.after', ';', '!', 'm10!', {}),
    ('stylesheet', 'snippets', 'bd', 'border:${1:1px} ${2:solid} ${3:#000}', 'border-x:1', 'bd', {}),
    # a FALSY value in the most specific layer is a value, not "absent": it must not give the output of the value a
    # lower layer / a fallback would give (second value = that fallback)
    ('markup', 'variables', 'lang', '', 'lang', 'html[lang=${lang}]', {}),
    ('markup', 'variables', 'lang', '', 'en', 'html[lang=${lang}]', {}),
    ('markup', 'variables', 'lang', '', 'lang', '!', {}),
    ('markup', 'variables', 'charset', '', 'UTF-8', 'meta[charset=${charset}]', {}),
    ('markup', 'options', 'output.indent', '', '\t', 'div>p', {}),
    ('markup', 'options', 'output.newline', '', '\n', 'div>p', {}),
    ('markup', 'options', 'comment.after', '', '\n<!-- /[#ID][.CLASS] -->', 'div#a', {'options': {'comment.enabled': True}}),
    ('markup', 'options', 'bem.element', '', '__', '.b>.-e', {'options': {'bem.enabled': True}}),
    ('markup', 'options', 'bem.modifier', '', '_', '.b_m', {'options': {'bem.enabled': True}}),
    ('markup', 'options', 'output.inlineBreak', 0, 3, 'p>a+b+i', {}),
    ('markup', 'options', 'output.booleanAttributes', [], ['contenteditable', 'seamless', 'async', 'autofocus', 'autoplay', 'checked', 'controls', 'defer', 'disabled', 'formnovalidate', 'hidden', 'ismap', 'loop', 'multiple', 'muted', 'novalidate', 'readonly', 'required', 'reversed', 'selected', 'typemustmatch'], 'input[disabled]', {}),
    ('stylesheet', 'options', 'stylesheet.between', '', ': ', 'm10', {}),
    ('stylesheet', 'options', 'stylesheet.intUnit', '', 'px', 'm10', {}),
    ('stylesheet', 'options', 'stylesheet.floatUnit', '', 'em', 'm1.5', {}),
    ('stylesheet', 'options', 'stylesheet.after', '', ';', 'm10', {}),
    ('stylesheet', 'options', 'output.newline', '', '\n', 'm10+p5', {}),
    ('stylesheet', 'options', 'stylesheet.unitAliases', {}, {'e': 'em', 'p': '%', 'x': 'ex', 'r': 'rem'}, 'm10p', {}),
    ('stylesheet', 'options', 'stylesheet.keywords', [], ['auto', 'inherit', 'unset', 'none'], 'm:a', {}),
]
LEGACY_WITNESSES = 86
# callback options (output.field / output.text) are option values like any other: the callable that is
# consulted must be the one the most specific defining layer holds -- the very object, not a copy of it
# (the caller's callbacks are stateful editor objects). (type, syntax, abbreviation, extra user keys)
CALLABLE_WITNESSES = [
    ('markup', None, 'ul>li*2>a[href]', {}),
    ('markup', 'pug', 'div#a>p.b{t}+img', {}),
    ('markup', 'jsx', 'Foo.bar>p[title]', {'text': ['w1', 'w2']}),
    ('stylesheet', None, 'm10+p${1:5}+bd', {}),
    ('stylesheet', 'sass', 'c#f+@kf', {'snippets': {'zq': 'zed:${1:1}'}}),
]
FIXED_SIZE = GRID_SIZE + len(WITNESSES) + len(CALLABLE_WITNESSES) + GRID_SIZE
LEGACY_FIXED_SIZE = GRID_SIZE + LEGACY_WITNESSES


def gen_c20_callable(ci):
    t, syn, abbr, extra = CALLABLE_WITNESSES[ci]
    import json
    base = json.loads(json.dumps(extra))
    if t == 'stylesheet':
        base['type'] = t
    if syn:
        base['syntax'] = syn
    s = syn or ('css' if t == 'stylesheet' else 'html')
    cfgs = {}
    # c0/c1: the call's own layer holds the callbacks (dict / held Config); c2/c3: only the global config does
    for i, (holder, peer) in enumerate((('dict', True), ('Config', True), ('dict', False), ('Config', False))):
        c = dict(json.loads(json.dumps(base)), id='c%d' % i, holder=holder, **{'global': 'g0'})
        if peer:
            c['peer'] = {'seed': 31 + i, 'style': 'upper'}
        cfgs['c%d' % i] = c
    cfgs['c4'] = dict(json.loads(json.dumps(base)), id='c4', holder='dict', **{'global': 'g0'})   # entry points other than expand()
    ops = []
    gcb = {'output.field': '@@gpeer.field', 'output.text': '@@gpeer.text'}
    for layer in ({t: {'options': dict(gcb)}}, {s: {'options': dict(gcb)}}, {t: {'options': {'output.indent': '  '}}, s: {'options': dict(gcb)}},
                  {t: {'options': dict(gcb)}, s: {'options': {'output.indent': '  '}}}):
        ops.append({'op': 'set_global', 'global': 'g0', 'layer': layer})
        for cid in ('c1', 'c3'):
            ops.append({'op': 'rebuild_cfg', 'cfg': cid})
        for cid in ('c0', 'c1', 'c2', 'c3'):
            ops.append({'op': 'resolve', 'cfg': cid})
            ops.append({'op': 'call', 'cfg': cid, 'abbr': abbr, 'pin': 0, 'c20': True})
        ops.append({'op': 'call', 'cfg': 'c4', 'abbr': abbr, 'pin': 0, 'c20': True,
                    'entry': 'expand_stylesheet' if t == 'stylesheet' else 'expand_markup'})
    return {'world': {'configs': cfgs, 'caches': [], 'globals': {'g0': {}}}, 'ops': ops, 'meta': {'callable-witness': [t, s]}}


def gen_c20_witness(wi):
    t, sec, key, v1, v2, abbr, extra = WITNESSES[wi]
    import json
    spec = json.loads(json.dumps(extra))
    spec.update({'id': 'c0', 'holder': 'dict', 'global': 'g0'})
    if t == 'stylesheet':
        spec['type'] = t
    syn = spec.get('syntax', 'css' if t == 'stylesheet' else 'html')
    world = {'configs': {'c0': spec, 'c1': dict(json.loads(json.dumps(spec)), id='c1', holder='Config')}, 'caches': [], 'globals': {'g0': {}}}
    ops = []
    pair = 0
    for pos in ('user', 'global-type', 'global-syntax'):
        for cfg in ('c0', 'c1'):
            pair += 1
            for side, v in enumerate((v1, v2)):
                if pos == 'user':
                    ops.append({'op': 'set_global', 'global': 'g0', 'layer': {}})
                    ops.append({'op': 'edit_cfg', 'cfg': cfg, 'path': [sec, key], 'value': v, 'inplace': bool(side)})
                else:
                    ops.append({'op': 'edit_cfg', 'cfg': cfg, 'path': [sec, key], 'delete': True, 'inplace': bool(side)})
                    ops.append({'op': 'set_global', 'global': 'g0', 'layer': {(t if pos == 'global-type' else syn): {sec: {key: v}}}})
                    if cfg == 'c1':
                        ops.append({'op': 'rebuild_cfg', 'cfg': 'c1'})
                ops.append({'op': 'call', 'cfg': cfg, 'abbr': abbr, 'pin': 0, 'c20': True,
                            'c20w': {'pair': pair, 'side': side, 'key': key, 'layer': pos, 'values': [v1, v2]}})
    return {'world': world, 'ops': ops, 'meta': {'witness': [t, sec, key]}}


def gen_c20_indexed(run_seed, index, tier=None):
    if index < GRID_SIZE:
        return gen_c20_grid(index)
    if index < GRID_SIZE + len(WITNESSES):
        return gen_c20_witness(index - GRID_SIZE)
    if index < GRID_SIZE + len(WITNESSES) + len(CALLABLE_WITNESSES):
        return gen_c20_callable(index - GRID_SIZE - len(WITNESSES))
    if index < FIXED_SIZE:
        # the exhaustive grid once more, from a host whose sections are read-only Mapping views
        h = gen_c20_grid(index - (FIXED_SIZE - GRID_SIZE))
        h['world']['frozen'] = True
        h['meta'] = {'grid-frozen': h['meta']['grid']}
        return h
    return gen_c20(run_seed)
