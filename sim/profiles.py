"""Workload profiles: one per claimed property. A profile names the history
generator, the oracles to evaluate, and how coverage is reported."""
from . import gen_hist, gen_c13, gen_c20, gen_sweep


def _fault_table(counters):
    fired = {k[len('fault-fired:'):]: v for k, v in counters.items() if k.startswith('fault-fired:')}
    planned = {k[len('fault-planned:'):]: v for k, v in counters.items() if k.startswith('fault-planned:')}
    return fired, planned


def _common_coverage(res, n_runs, t_batch, workers):
    fired, planned = _fault_table(res.counters)
    probes = {k[len('probe:'):]: v for k, v in res.counters.items() if k.startswith('probe:')}
    return {
        'evaluations': res.runs,
        'ops_executed': res.ops,
        'runs_per_hour': round(res.runs / max(t_batch, 1e-6) * 3600),
        'workers': workers,
        'simulated_time': 'no clock exists in py-emmet; logical time = op index; %d logical steps covered' % res.ops,
        'states': len(res.states),
        'transitions': len(res.transitions),
        'history_shapes': len(res.shapes),
        'faults_fired': dict(sorted(fired.items())),
        'faults_planned': dict(sorted(planned.items())),
        'reach_probes': dict(sorted(probes.items())),
        'counters': dict(sorted((k, v) for k, v in res.counters.items()
                                if not k.startswith(('fault-', 'probe:')))),
    }


def c08_coverage(res, n_runs, t_batch, workers):
    from .batch import sample_of
    cov = _common_coverage(res, n_runs, t_batch, workers)
    cov['distinct_nontrivial'] = len(res.nontrivial_shapes)
    cov['rule'] = ('one evaluation = one seeded history (2-40 ops over <=3 configs, <=2 caches, <=1 global config; '
                   'swarm-chosen syntaxes, features, fault kinds and fault rate) executed in one interpreter and '
                   'compared call by call with pristine forks. A history is non-trivial iff at least two calls touch '
                   'one shared object (config dict, Config instance or cache); distinct by history-shape hash = '
                   'sequence of (op kind, object, fault kind, outcome class). states/transitions = distinct abstract '
                   'host states (per config: carries-text, calls so far, raised-before, holder, type; per cache: '
                   'filled, #option sets that hit it; census dirty) and (state, op, fault, state) steps.')
    cov['containers_tracked_by_census'] = res.extra.get('containers_tracked', 0)
    cov['systematic_sweep'] = (
        'the first sweep_size(tier) evaluations are deterministic: a systematic fault sweep (sim/gen_sweep.py: %d call shapes x '
        'evenly spaced F5/F4/F3 placements, each followed by probes) plus %d scripted scenarios (every kind of host '
        'action between two looks at the same objects; every syntax from three fresh configs in a row; every documented option '
        'flipped between two configs around a failing call) plus the exhaustive fault placement (see exhaustive_fault_placement): '
        'quick %d, thorough %d histories; all further evaluations are seeded histories' % (
            len(gen_sweep.shapes()), len(gen_sweep.scenarios()), gen_sweep.sweep_size('quick'), gen_sweep.sweep_size('thorough')))
    nx = dict((t, gen_sweep.xh_size(t)) for t in ('quick', 'thorough'))
    cov['exhaustive_fault_placement'] = {
        'what': 'the last part of the deterministic prefix: for %d call shapes (quick: %d) fault F5 is delivered once at EVERY library '
                'function entry n = 1..N of the call (quick: alternating flavours Exception/BaseException; thorough: every entry with '
                'both flavours; for the two ~70 000-entry cache-filling stylesheet calls the first and last entries one by one and '
                'the middle with a stride), each placement followed by probes on the same objects and compared with pristine forks; '
                '%d placements per history, a steady-state census closes every history'
                % (len(gen_sweep.xh_shapes()), len([1 for x in gen_sweep.xh_shapes() if 'quick' in x[6].split()]), gen_sweep.XH_CHUNK),
        'placements_planned': {'quick': nx['quick'][1], 'thorough': nx['thorough'][1]},
        'placements_in_this_batch': res.counters.get('exhaustive:placements', 0),
        'placements_fired_in_this_batch': res.counters.get('exhaustive:placements-fired', 0),
        'note': 'a placement beyond the real number of entries of the call does not fire and leaves an ordinary, compared call; caps '
                'are the entry counts of the pinned tree x 1.25 + one chunk, and a fault that still fires in the last chunk of a shape is '
                'reported as a WARNING (cap too low)',
    }
    cov['samples'] = [sample_of(o) for o in res.samples[:4]]
    return cov


def c08_warnings(res, tier):
    out = []
    for k in sorted(res.counters):
        if k.startswith('exhaustive:fired-in-last-chunk'):
            out.append('exhaustive fault placement: %s (the call now has more function entries than the sweep walks)' % k)
    need = ['probe:raise-inside-text-removed-window', 'probe:cache-hit-under-options-different-from-filling-call',
            'probe:cache-hit-on-numeric-default-under-other-options', 'probe:Config-instance-reused-after-raising-call',
            'probe:BEM-call-repeated', 'probe:peer-failed-mid-format',
            'fault-fired:F3', 'fault-fired:F4', 'fault-fired:F5', 'fault-fired:natural(F1)', 'fault-fired:natural(F2)',
            'census:measured']
    for k in need:
        if not res.counters.get(k):
            out.append('reach probe stuck at zero: %s' % k)
    return out


def c13_coverage(res, n_runs, t_batch, workers):
    from .batch import sample_of
    cov = _common_coverage(res, n_runs, t_batch, workers)
    cov['distinct_nontrivial'] = len(res.distinct_keys)
    cov['rule'] = ('one evaluation = one seeded history of 1-6 expand calls (markup in html/xml/xsl/jsx/vue/svelte/pug/slim/haml '
                   'and stylesheet syntaxes; newline in {LF, CRLF, CR}, seeded indent/baseIndent, comments, format options) '
                   'on configs whose output.field/output.text are played by the simulated editor peer (8 answer styles incl. '
                   'length-changing and empty answers), with peer failures (F3), callee failures (F5) and malformed input (F1) '
                   'between the observed calls. Every successful call is checked: placement, line, column of every callback '
                   'invocation against the final string, and tabstop numbering (1..n in document order; n from the generator\'s '
                   'explicit tree for the HTML formatter; relative numbering and no collisions for explicit fields). A call is '
                   'non-trivial iff the peer was invoked >= 3 times, at least one answer differs in length from what it was given, '
                   'and the result has >= 2 lines or >= 2 tabstops; distinct by (abbreviation skeleton, syntax, newline, indent, '
                   'baseIndent, format, peer style).')
    cov['samples'] = [sample_of(o) for o in res.samples[:2]]
    return cov


def c13_warnings(res, tier):
    out = []
    for k in ['c13:calls-scored-for-line/column', 'c13:calls-numbering-counted', 'c13:calls-numbering-explicit',
              'c13:calls-nontrivial', 'fault-fired:F3', 'fault-fired:F5']:
        if not res.counters.get(k):
            out.append('reach probe stuck at zero: %s' % k)
    return out


def c20_coverage(res, n_runs, t_batch, workers):
    from .batch import sample_of
    cov = _common_coverage(res, n_runs, t_batch, workers)
    cov['distinct_nontrivial'] = len(res.distinct_keys)
    cov['cells_reached'] = len(res.distinct_keys)
    cov['cells_nominal'] = 32 * 18 * 3
    cov['grid_histories'] = min(res.runs, gen_c20.GRID_SIZE)
    cov['witness_histories'] = max(0, min(res.runs, gen_c20.FIXED_SIZE) - gen_c20.GRID_SIZE)
    cov['rule'] = ('the first %d evaluations are an exhaustive grid (every syntax name of both types incl. unknown ones x key kind x '
                   'candidate key x every subset of the three caller-controlled layers; the two built-in layers vary with the '
                   '(syntax, key) pair); every further evaluation = one seeded history of 3-12 ops: a host' % gen_c20.GRID_SIZE + ' keeps a global config and reloads it between calls '
                   '(set_global), edits its user layer (add/remove keys, switch syntax), builds Config(user, global) (resolve) '
                   'and calls expand(abbr, user, global), for all 16 known syntaxes of both types plus unknown names, with '
                   'malformed input (F1) and callee failures (F5) in between. After every op the built-in tables are compared '
                   'with their pristine snapshot; around every Config(...)/expand the caller\'s dicts are compared; every '
                   'resolved Config is compared with the layered-merge reference model; every unfaulted expand is compared '
                   'with expand on the model\'s flattened config. A probe is non-trivial iff at least one overriding layer '
                   'mentions the probed key; distinct by cell = (which of the 5 overriding layers mention the key, syntax '
                   'name, key kind option/snippet/variable); cells_nominal = 2^5 x 18 x 3 includes cells the built-in tables '
                   'make unreachable (e.g. no built-in layer defines variables).')
    cov['samples'] = [sample_of(o) for o in res.samples[:4]]
    return cov


def c20_warnings(res, tier):
    out = []
    for k in ['c20:configs-resolved', 'c20:expand-compared-with-flattened-config', 'c20:table-snapshots-compared',
              'fault-fired:F5', 'fault-fired:natural(F1)']:
        if not res.counters.get(k):
            out.append('reach probe stuck at zero: %s' % k)
    return out


PROFILES = {
    'C20': {
        'gen': gen_c20.gen_c20,
        'gen_indexed': gen_c20.gen_c20_indexed,
        'fixed_runs': lambda tier: gen_c20.FIXED_SIZE,
        'seed_shift': lambda tier: gen_c20.FIXED_SIZE - gen_c20.LEGACY_FIXED_SIZE,
        'props': ['C20'],
        'coverage': c20_coverage,
        'warnings': c20_warnings,
        'level': 'exploration',
        'quick_runs': 8083,
        'thorough_runs': 200000,
    },
    'C13': {
        'gen': gen_c13.gen_c13,
        'gen_indexed': gen_c13.gen_c13_indexed,
        'fixed_runs': lambda tier: gen_c13.GRID_SIZE,
        'seed_shift': lambda tier: gen_c13.GRID_SIZE,
        'props': ['C13'],
        'coverage': c13_coverage,
        'warnings': c13_warnings,
        'level': 'exploration',
        'quick_runs': 9512,
        'thorough_runs': 200000,
    },
    'C08': {
        'gen': gen_hist.gen_c08,
        'gen_indexed': gen_hist.gen_c08_indexed,
        'fixed_runs': gen_sweep.sweep_size,
        'seed_shift': lambda tier: gen_sweep.sweep_size(tier) - gen_sweep.LEGACY_SWEEP_SIZE[tier],
        'props': ['C08'],
        'coverage': c08_coverage,
        'warnings': c08_warnings,
        'level': 'exploration',
        'quick_runs': 4376,
        'thorough_runs': 153336,
    },
}
