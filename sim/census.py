"""Steady-state leak census (C08: "the library keeps no per-call data alive").

Two measurements, both taken after `gc.collect()`:

* instance census  - live instances of classes defined in emmet.* that are not
  reachable from harness-owned roots (the caller's configs, caches, peers);
* container census - summed sizes (depth-limited) of every container reachable
  from emmet.* module globals, class attributes, function defaults, keyword
  defaults and closure cells.

The oracle compares the census after the 2nd and after the 3rd execution of an
identical call: the first execution may lazily initialise or memoise, an
identical repeat may not grow anything.
"""
import gc
import types
import weakref
from collections import deque, OrderedDict, defaultdict
from collections import abc as _abc

from . import lib

_CONTAINERS = (dict, list, set, frozenset, tuple, deque)
_STOP = (types.FunctionType, types.BuiltinFunctionType, types.ModuleType, type, types.MethodType,
         types.CodeType, types.FrameType, types.TracebackType)
MAX_DEPTH = 4


def _other_container(obj):
    """Containers that are neither dict/list/set/tuple/deque nor library objects: weak dictionaries and
    sets, UserDict/ChainMap/array and anything else the standard library offers as a Mapping, Set or
    Sequence (seeded change Y82-m3 parked the caller's callbacks in a module-level WeakKeyDictionary
    whose values kept the keys alive)"""
    if isinstance(obj, (str, bytes, bytearray, range, memoryview)):
        return False
    return isinstance(obj, (_abc.Mapping, _abc.Set, _abc.Sequence, weakref.WeakSet))


def _is_lib_type(t):
    m = getattr(t, '__module__', None)
    return isinstance(m, str) and (m == 'emmet' or m.startswith('emmet.'))


def owned_ids(roots):
    """ids of everything reachable from harness-owned roots. The walk stops at
    functions, modules and classes: a Config holds the default `output.field`
    lambda whose __globals__ reaches all module state and would 'own' every leak."""
    seen = set()
    stack = list(roots)
    while stack:
        o = stack.pop()
        i = id(o)
        if i in seen:
            continue
        seen.add(i)
        if isinstance(o, types.MethodType):
            # bound peer callbacks: own the receiver (our Peer), not the function
            stack.append(o.__self__)
            continue
        if isinstance(o, _STOP):
            continue
        for r in gc.get_referents(o):
            if id(r) not in seen and not isinstance(r, (str, int, float, bool, type(None), bytes)):
                stack.append(r)
    return seen


def instance_census(roots):
    """(counts, payload, alive): number of live, not harness-owned instances per emmet.* class,
    their identities (id -> class; an identical repeated call must not leave NEW library
    objects alive even if it drops as many old ones: "the tree of the last call" is
    per-call data too) and the summed size of the containers hanging off them (a long-lived object whose lists
    grow with every call - e.g. a memoised snippet collecting dependencies - keeps per-call
    data alive without any new instance appearing)."""
    gc.collect()
    owned = owned_ids(roots)
    counts = {}
    payload = {}
    alive = {}
    seen = set()
    for o in gc.get_objects():
        t = type(o)
        if _is_lib_type(t) and id(o) not in owned:
            key = '%s.%s' % (t.__module__, t.__qualname__)
            counts[key] = counts.get(key, 0) + 1
            alive[id(o)] = key
            size = _payload(o, seen)
            if size:
                payload[key] = payload.get(key, 0) + size
    return counts, payload, alive


def _payload(obj, seen):
    "Summed size of the containers directly hanging off one library instance (children instances are visited on their own)"
    total = 0
    vals = []
    d = getattr(obj, '__dict__', None)
    if isinstance(d, dict):
        vals.extend(d.values())
    for cls in type(obj).__mro__:
        for name in getattr(cls, '__slots__', ()) or ():
            if isinstance(name, str):
                try:
                    vals.append(getattr(obj, name))
                except AttributeError:
                    pass
    for v in vals:
        if isinstance(v, (dict, list, set, deque)) and id(v) not in seen:
            seen.add(id(v))
            total += len(v)
            for item in (list(v.values()) if isinstance(v, dict) else list(v)):
                if isinstance(item, (dict, list, set, deque)) and id(item) not in seen:
                    seen.add(id(item))
                    total += len(item)
    return total


def _measure(obj, depth, seen):
    "Summed size of the containers reachable from obj within MAX_DEPTH"
    if depth > MAX_DEPTH:
        return 0
    i = id(obj)
    if i in seen:
        return 0
    if isinstance(obj, str):
        return 0
    if isinstance(obj, _STOP):
        if hasattr(obj, 'cache_info') and callable(getattr(obj, 'cache_info', None)):
            try:
                return int(obj.cache_info().currsize)
            except Exception:  # noqa
                return 0
        return 0
    total = 0
    if isinstance(obj, (dict, OrderedDict, defaultdict)):
        seen.add(i)
        total += len(obj)
        for k, v in list(obj.items()):
            total += _measure(k, depth + 1, seen)
            total += _measure(v, depth + 1, seen)
    elif isinstance(obj, _CONTAINERS):
        seen.add(i)
        total += len(obj)
        for v in list(obj):
            total += _measure(v, depth + 1, seen)
    elif hasattr(obj, 'cache_info') and callable(getattr(obj, 'cache_info', None)):
        try:
            total += int(obj.cache_info().currsize)
        except Exception:  # noqa
            pass
    elif _other_container(obj):
        seen.add(i)
        try:
            total += len(obj)
            items = list(obj.items()) if isinstance(obj, _abc.Mapping) else [(None, v) for v in list(obj)]
        except Exception:  # noqa
            items = []
        for k, v in items:
            total += _measure(k, depth + 1, seen)
            total += _measure(v, depth + 1, seen)
    elif not _is_lib_type(type(obj)) and isinstance(getattr(obj, '__dict__', None), dict) and depth <= 1 \
            and not isinstance(obj, (int, float, complex, bytes, BaseException)):
        # a plain holder object at module level (SimpleNamespace, threading.local, an ad-hoc class from elsewhere)
        seen.add(i)
        for v in list(obj.__dict__.values()):
            total += _measure(v, depth + 1, seen)
    elif _is_lib_type(type(obj)):
        seen.add(i)
        d = getattr(obj, '__dict__', None)
        if isinstance(d, dict):
            for v in list(d.values()):
                total += _measure(v, depth + 1, seen)
        for cls in type(obj).__mro__:
            for name in getattr(cls, '__slots__', ()) or ():
                if isinstance(name, str):
                    try:
                        total += _measure(getattr(obj, name), depth + 1, seen)
                    except AttributeError:
                        pass
    return total


def _function_parts(fn):
    out = []
    d = getattr(fn, '__defaults__', None)
    if d:
        for n, v in enumerate(d):
            out.append(('__defaults__[%d]' % n, v))
    kd = getattr(fn, '__kwdefaults__', None)
    if kd:
        for k, v in kd.items():
            out.append(('__kwdefaults__[%s]' % k, v))
    cl = getattr(fn, '__closure__', None)
    if cl:
        for n, cell in enumerate(cl):
            try:
                out.append(('__closure__[%d]' % n, cell.cell_contents))
            except ValueError:
                pass
    return out


def container_census():
    "name -> size for every piece of module-lifetime state in emmet.*"
    gc.collect()
    sizes = {}
    for mod in lib.modules():
        mname = mod.__name__
        for name, val in list(vars(mod).items()):
            if name == '__warningregistry__' and isinstance(val, dict):
                # warnings.warn() with the input in the message text records every distinct text here, forever
                sizes['%s.%s' % (mname, name)] = len(val)
                continue
            if name.startswith('__') and name.endswith('__'):
                continue
            if isinstance(val, types.ModuleType):
                continue
            if isinstance(val, types.FunctionType):
                if getattr(val, '__module__', None) != mname and not hasattr(val, 'cache_info'):
                    continue
                for part, v in _function_parts(val):
                    sizes['%s.%s.%s' % (mname, name, part)] = _measure(v, 0, set())
                w = getattr(val, '__wrapped__', None)
                if hasattr(val, 'cache_info'):
                    sizes['%s.%s.<cache>' % (mname, name)] = _measure(val, 0, set())
                if isinstance(w, types.FunctionType):
                    for part, v in _function_parts(w):
                        sizes['%s.%s.__wrapped__.%s' % (mname, name, part)] = _measure(v, 0, set())
                fd = getattr(val, '__dict__', None)
                if fd:
                    sizes['%s.%s.__dict__' % (mname, name)] = _measure(fd, 0, set())
            elif isinstance(val, type):
                if getattr(val, '__module__', None) != mname:
                    continue
                for an, av in list(vars(val).items()):
                    if an.startswith('__') and an.endswith('__') and an != '__init__':
                        continue
                    if isinstance(av, (staticmethod, classmethod)):
                        av = av.__func__
                    if isinstance(av, types.FunctionType):
                        for part, v in _function_parts(av):
                            sizes['%s.%s.%s.%s' % (mname, name, an, part)] = _measure(v, 0, set())
                    elif isinstance(av, (dict, list, set, deque)) or _other_container(av):
                        sizes['%s.%s.%s' % (mname, name, an)] = _measure(av, 0, set())
            elif isinstance(val, str):
                sizes['%s.%s.<str>' % (mname, name)] = len(val)
            elif isinstance(val, (int, float, bool, type(None), bytes)):
                continue
            else:
                # containers, lru_cache wrappers, module-level instances
                if _is_lib_type(type(val)) or isinstance(val, (dict, list, set, deque, tuple, frozenset)) \
                        or hasattr(val, 'cache_info') or _other_container(val) \
                        or (isinstance(getattr(val, '__dict__', None), dict) and not isinstance(val, _STOP)
                            and not isinstance(val, BaseException) and not callable(val)):
                    if getattr(val, '__module__', mname) != mname and hasattr(val, 'cache_info'):
                        pass
                    sizes['%s.%s' % (mname, name)] = _measure(val, 0, set())
    return sizes


def caller_census(host):
    """name -> summed container size of the objects the CALLER owns and hands to the library: its cache dicts,
    its config dicts and its held Config instances. The library may fill a cache once; it may not park per-call
    data in the caller's objects either (a private key that grows with every call is per-call data kept alive,
    wherever it hangs). Peers and kept exception objects are the harness's own and are not measured."""
    sizes = {}
    for cid in sorted(host.caches):
        sizes['caller.cache[%s]' % cid] = _measure(host.caches[cid], 0, set())
    for cid in sorted(host.cfgs):
        h = host.cfgs[cid]
        if h.user is not None:
            sizes['caller.config[%s]' % cid] = _measure(h.user, 0, set())
        if h.instance is not None:
            sizes['caller.Config[%s]' % cid] = _measure(h.instance, 0, set())
    return sizes


def growth(before: dict, after: dict):
    "Entries that got larger (or appeared) between two censuses"
    out = []
    for k in sorted(after):
        a = after[k]
        b = before.get(k, 0)
        if a > b:
            out.append((k, b, a))
    return out
