#!/venv/bin/python
"""seeded_rows.py [prefix]: rows of the DESIGN.md section-12 table (id | breaks | change | caught by) from seeded/*/meta.json"""
import glob
import json
import os
import sys

VERIF = os.path.dirname(os.path.dirname(os.path.abspath(__file__)))
prefix = sys.argv[1] if len(sys.argv) > 1 else ''
for path in sorted(glob.glob(os.path.join(VERIF, 'seeded', prefix + '*', 'meta.json'))):
    m = json.load(open(path))
    cls = []
    for p, c in sorted((m.get('checks') or {}).items()):
        for k in c.get('classes', []):
            cls.append('%s (%d)' % (k['class'].split('/', 1)[1], k['first_run']))
    title = (m.get('title') or '').replace('|', '/')
    if len(title) > 150:
        title = title[:149] + '…'
    print('| %s | %s | %s | %s |' % (m['id'], m.get('breaks_property'), title, '; '.join(cls) or '**missed**'))
