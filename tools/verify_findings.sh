#!/bin/bash
# Replays every finding under findings/ against the pinned original tree (must reproduce)
# and against /repo's working tree (must not reproduce any more). Scratch worktree under /tmp, removed afterwards.
cd /verif
WT=/tmp/wt_findings_$$
git -C /repo worktree add -q --detach "$WT" c074342 || exit 2
rc=0
for f in findings/*.json; do
  a=$(VERIF_REPO=$WT bin/check --replay "$f" | head -1 | cut -c1-60)
  b=$(bin/check --replay "$f" | head -1 | cut -c1-60)
  echo "$f"
  echo "   original tree (c074342): $a"
  echo "   repaired tree (HEAD)   : $b"
  case "$a" in REPRODUCED*) ;; *) rc=1;; esac
  case "$b" in replay\ did\ not*) ;; *) rc=1;; esac
done
git -C /repo worktree remove --force "$WT"; git -C /repo worktree prune
exit $rc
