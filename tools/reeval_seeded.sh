#!/bin/bash
# Re-evaluates every kept seeded change against the current checks:
# one scratch worktree of /repo under /tmp, removed afterwards.
set -u
cd /verif
WT=/tmp/wt_reeval_$$
git -C /repo worktree add -q --detach "$WT" HEAD || exit 2
for d in seeded/*/; do
  id=$(basename "$d")
  prop=$(/venv/bin/python -c "import json,sys; print(json.load(open('$d/meta.json'))['breaks_property'])")
  echo "== $id"
  /venv/bin/python tools/eval_mutant.py "$WT" "/verif/seeded/$id" "$id" --props "$prop" 2>&1 | tail -3
done
git -C /repo worktree remove --force "$WT"
git -C /repo worktree prune
echo ALLDONE
