import json
NA = {
 'C01': 'Pure function of (abbreviation, options): tree shape comes from the token list; parser stack and ConvertState are locals of one call. No state, second party, clock or fault in the claim for a simulator to act on.',
 'C02': 'Pure function of (abbreviation, maxRepeat): repeat guard and repeater stack live in the per-call ConvertState; counter arithmetic reads only that. Nothing survives a call or depends on a schedule.',
 'C03': 'Pure function of (abbreviation, options): attributes are copied per node per call; quoting/boolean rules read only options. No history, fault or interleaving in the statement.',
 'C04': 'Pure function of (abbreviation, text): text placement is decided inside one call. The one stateful aspect (text removed from the caller\'s config during snippet resolution) is a history effect and is decided under C08.',
 'C05': 'Pure function of (tokens, options). The one stateful aspect (units written into cached snippet tokens) is a history effect and is decided under C08.',
 'C06': 'Pure function of (merged snippet table, key); the space is a finite table, no schedule or fault. Cache effects are decided under C08.',
 'C07': 'Totality / exception type of a single call on a single input: nothing is in flight for a fault to hit, there is no second call and no scheduler that could starve termination.',
 'C09': 'html_matcher allocates its pool, stack and options as locals of each call and only reads module tables; pure over (source, position, options).',
 'C10': 'css_matcher builds its Scanner, state, pool and stack per call; pure over (source, position).',
 'C11': 'extract_abbreviation builds a BackwardScanner and a fresh options dict per call; pure over (line, position, options).',
 'C12': 'Compares two independent calls on equal input under different options; each is pure given C08, so there is no history, fault or schedule to explore.',
 'C14': 'Snippet resolution keeps its cycle stack as a local; termination and alias equivalence are functions of (abbreviation, snippet table). Bounded-step liveness without a scheduler is plain totality.',
 'C15': 'Indent formatters create their walk state and output stream per call; level bookkeeping is intra-call; pure over (abbreviation, options).',
 'C16': 'Scanners, matchers and splitters take (string, position), build their cursor per call and touch nothing else; the property says nothing about cancellation of the scan callback.',
 'C17': 'action_utils wrap the same scanners with closure-local accumulators; pure over (code, position).',
 'C18': 'Both tokenizers own a Scanner and local bracket counters; pure over the input string.',
 'C19': 'math_expression parse/evaluate/extract use local lists; the shared nullary token is never written; pure over the input string.',
}
import sys
pending = json.loads(sys.argv[1]) if len(sys.argv) > 1 else {}
NA.update(pending)
checks = []
def chk(pid, level_text, note, technique, ref):
    return {
        'property_id': pid,
        'quick_cmd': 'bin/check %s --tier quick' % pid,
        'thorough_cmd': 'bin/check %s --tier thorough' % pid,
        'evidence_file': 'evidence/%s.json' % pid,
        'replay_cmd_template': 'bin/check --replay {path}',
        'engine': 'sim',
        'level_claimed': {'category': 'exploration', 'text': level_text, 'design_ref': ref},
        'level_note': note,
        'technique': technique,
    }
claimed = [p for p in ('C08', 'C13', 'C20') if p not in NA]
TEXT = {
 'C08': ('Seeded search over histories of expand calls (2-40 ops; shared config dicts, held Config objects, shared caches, a global config; host edits/clones/rebuilds between calls) with faults injected inside calls (the host keeps the exception object of the last failed call; malformed input, poisoned snippets, failing editor callback, recursion-limit exhaustion, failure at the n-th library function entry). A deterministic part opens every batch: a systematic sweep of fault placements over 16 call shapes, ~230 scripted host scenarios (incl. every documented option flipped between two configs around a failing call) and an exhaustive placement of the callee failure at EVERY function entry of 8 (quick; 14 280 placements) / 19 (thorough; 190 524 placements) call shapes. Every call is compared with the same call made in a pristine fork of an import-only interpreter (result string or exception, and what the callbacks of the caller were asked on the way); identical calls repeated three times must not grow any emmet.* container, instance count or payload nor leave new library objects alive; 2 300 calls with pairwise distinct inputs (also from a host that builds a fresh config and fresh callbacks per call) must not keep growing module state. Evidence carries a library-reach measure (lines of emmet/ executed by the run children). A clean batch is evidence, not proof; sampling is the right level because the space of histories is unbounded and the oracle is differential.',
         'Trusts: fork of an import-only zygote == fresh interpreter for everything the property can observe; assumptions A1-A6 in DESIGN.md section 7 (notably A1: one cache is never shared between different snippet tables; A6: no concurrent or re-entrant calls).',
         'deterministic simulation: seeded histories + fault injection, differential oracle against pristine forks, steady-state leak census', '4'),
 'C13': ('Seeded search over histories of 1-6 expand calls whose output.field/output.text callbacks are played by a simulated editor peer (8 answer styles incl. length-changing and empty answers; the peer can fail at its k-th invocation). Every batch opens with a deterministic grid: every (syntax x newline string x baseIndent x indent) cell, 1 512 histories. The peer records every invocation; afterwards placement, line and column of every invocation are checked against the final string (in the property\'s own terms, never via OutputStream internals) and the tabstop indices against the numbering rules (1..n in document order, n taken from the generator\'s explicit tree for the HTML formatter; relative numbering and no collisions for explicit fields). The numbering clause is a function of the abbreviation alone and rides along because the peer witnesses the indices; exploration is the honest level.',
         'Trusts: assumption A2 (peer answers contain no line breaks; texts containing a line break or the configured newline are returned unchanged), output.newline is set in the user layer so the oracle needs no precedence model; the tabstop count model is only applied to a restricted vocabulary (names outside every snippet table, plain empty attributes, no wrap text).',
         'deterministic simulation: simulated editor peer with recorded invocation history and fault injection, history checked against the final string', '5'),
 'C20': ('Seeded search over histories of a host that reloads its global config between calls, edits its user layer, builds Config objects and calls expand, for all 16 known syntaxes of both types plus unknown names, with malformed input and callee failures in between. After every op the built-in tables are compared with a snapshot taken in the pristine interpreter; around every Config()/expand the caller\'s dicts are compared; every resolved Config is compared with a 10-line layered-merge reference model (built-in layers read from the pristine snapshot); every unfaulted expand is compared with expand on the model\'s flattened config; the host writes into its resolved Config and the tables must stay untouched. Every batch opens with an exhaustive grid (every syntax name x key kind x candidate key x subset of caller-controlled layers) and 86 option-effect witnesses (a value must take effect on the output whichever layer it comes from) and 5 callback-option histories (the output.field/output.text callables of the most specific defining layer must be the objects that are consulted). The precedence clause is a finite table that enumeration of fresh Configs would settle as well; it is checked here at every step of histories in which earlier calls and settings reloads could have disturbed the tables it reads, which is the part enumeration cannot reach.',
         'Trusts: the reference model encodes the documented order (defaults < type defaults < syntax defaults < global type < global syntax < user); option values have their documented types (A4); the top-level `text` key written by markup.parse() is not counted as a modification by merging.',
         'deterministic simulation: settings-reload histories with fault injection, per-step snapshot invariants and a layered-merge reference model', '6'),
}
for p in claimed:
    checks.append(chk(p, *TEXT[p]))
m = {
 'version': 1,
 'setup_cmd': '/venv/bin/python -c "import sys; sys.path.insert(0, \'/repo\'); import emmet, os; assert os.path.realpath(emmet.__file__).startswith(\'/repo/\'), emmet.__file__" && /venv/bin/python bin/check --help >/dev/null',
 'hooks': {
  'guard': 'EMMET_VERIF',
  'enable': 'none needed: every seam the simulator uses already exists (caller-owned config/cache objects, output.field/output.text callbacks, the global random stream, sys.setrecursionlimit, sys.settrace). The guard name is reserved and unused; checks import /repo\'s working tree as it is.',
  'baseline_off_cmd': 'cd /repo && /venv/bin/python -m pytest -ra -q -p no:cacheprovider --timeout=900 --continue-on-collection-errors',
  'source_commits': [],
  'add_only': True,
 },
 'engines': [{'name': 'sim', 'path': 'sim/', 'serves_properties': claimed,
              'kind_free_text': 'deterministic simulator: import-only zygote, fork per reference call, fork per simulated history, seeded generator, own ddmin minimiser, JSON replay files'}],
 'checks': checks,
 'not_applicable': [{'property_id': k, 'reason': v} for k, v in sorted(NA.items())],
 'notes': 'Five genuine defects (three C08, two C13) were found on the pinned tree and repaired in /repo by five separate "fix:" commits (see known_findings.json and DESIGN.md section 9). Exit codes: 0 held, 1 violation, 2 harness error.',
}
json.dump(m, open('/verif/MANIFEST.json', 'w'), indent=1)
print('claimed', claimed)
