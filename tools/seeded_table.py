#!/venv/bin/python
"""Prints the table of seeded changes (seeded/*/meta.json) with the result of their last evaluation."""
import glob
import json
import os

VERIF = os.path.dirname(os.path.dirname(os.path.abspath(__file__)))


def main():
    print('| id | property | title | confirmed | detected by | classes (first violating run) | seconds |')
    print('|----|----------|-------|-----------|-------------|-------------------------------|---------|')
    n = det = 0
    for path in sorted(glob.glob(os.path.join(VERIF, 'seeded', '*', 'meta.json'))):
        m = json.load(open(path))
        n += 1
        checks = m.get('checks') or {}
        cls = []
        secs = 0
        for p, c in sorted(checks.items()):
            secs += c.get('seconds', 0)
            for k in c.get('classes', []):
                cls.append('%s (%d)' % (k['class'].split('/', 1)[1], k['first_run']))
        if m.get('detected_by'):
            det += 1
        print('| %s | %s | %s | %s | %s | %s | %.0f |' % (
            m['id'], m.get('breaks_property'), (m.get('title') or '').replace('|', '/'), 'yes' if m.get('confirmed') else 'NO',
            ', '.join(m.get('detected_by') or []) or '**missed**', '; '.join(cls), secs))
    print('\n%d seeded changes, %d detected' % (n, det))


if __name__ == '__main__':
    main()
