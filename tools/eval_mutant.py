#!/venv/bin/python
"""eval_mutant.py <worktree> <mutant-dir> <seeded-id> [--runs N] [--props C08,C13]

Confirms a seeded change produced by a sub-agent and runs the checks against it.

1. in the scratch worktree (a git worktree of /repo outside /repo and /verif):
   clean tree -> demo passes; apply patch -> test suite passes (141) -> demo fails;
   revert.
2. the claimed property's quick check (and optionally others) against a scratch copy
   of /repo's emmet/ with the patch applied (VERIF_REPO=<copy>), evidence and replay
   files redirected into the copy; the copy is removed afterwards.
3. keeps the change as /verif/seeded/<id>/ (patch.diff, demo.py, meta.json).
"""
import argparse
import json
import os
import re
import shutil
import subprocess
import sys
import tempfile
import time

VERIF = os.path.dirname(os.path.dirname(os.path.abspath(__file__)))
PY = '/venv/bin/python'


def sh(cmd, cwd=None, env=None, timeout=3600):
    p = subprocess.run(cmd, cwd=cwd, env=env, stdout=subprocess.PIPE, stderr=subprocess.STDOUT, timeout=timeout)
    return p.returncode, p.stdout.decode('utf-8', 'replace')


def main():
    ap = argparse.ArgumentParser()
    ap.add_argument('worktree')
    ap.add_argument('mutant')
    ap.add_argument('sid')
    ap.add_argument('--runs', type=int)
    ap.add_argument('--props')
    ap.add_argument('--no-keep', action='store_true')
    args = ap.parse_args()
    wt = os.path.realpath(args.worktree)
    md = os.path.realpath(args.mutant)
    assert not wt.startswith('/repo') and not wt.startswith('/verif')
    patch = os.path.join(md, 'patch.diff')
    demo = os.path.join(md, 'demo.py')
    meta = json.load(open(os.path.join(md, 'meta.json')))
    reeval = md.startswith(os.path.join(VERIF, 'seeded'))
    if reeval:
        # re-evaluation of a kept change: meta.json is ours, the demo carries the path of the
        # sub-agent's (long gone) worktree, which is rewritten to the scratch worktree given
        src = open(demo).read().replace(meta['demo_expects_tree_at'], wt)
        demo = os.path.join(wt, '.seeded_demo.py')
        open(demo, 'w').write(src)
        meta = {'property': meta.get('breaks_property'), 'title': meta.get('title'), 'mechanism': meta.get('mechanism'),
                'needs': meta.get('needs_to_manifest'), 'files': meta.get('files'), '_orig_tree': meta['demo_expects_tree_at']}
    ran = []
    result = {'confirmed': False}

    # -- 1. confirm in the scratch worktree
    code, out = sh(['git', 'status', '--porcelain', 'emmet'], cwd=wt)
    if out.strip():
        print('worktree not clean:', out)
        sh(['git', 'checkout', '--', 'emmet'], cwd=wt)
    c0, o0 = sh([PY, demo], cwd=wt)
    ran.append('clean tree: demo.py -> exit %d' % c0)
    ca, oa = sh(['git', 'apply', '--whitespace=nowarn', patch], cwd=wt)
    if ca != 0:
        print('patch does not apply:', oa)
        return 2
    try:
        ct, ot = sh([PY, '-m', 'pytest', '-q', '-p', 'no:cacheprovider', '-x'], cwd=wt)
        m = re.search(r'(\d+) passed', ot)
        passed = int(m.group(1)) if m else 0
        failed = 'failed' in ot.splitlines()[-1] if ot.strip() else True
        ran.append('patched: pytest -> %s' % (ot.strip().splitlines()[-1] if ot.strip() else 'no output'))
        c1, o1 = sh([PY, demo], cwd=wt)
        ran.append('patched: demo.py -> exit %d' % c1)
        diffstat = sh(['git', 'diff', '--stat'], cwd=wt)[1].strip().splitlines()[-1:]
    finally:
        sh(['git', 'checkout', '--', 'emmet'], cwd=wt)
        shutil.rmtree(os.path.join(wt, '.pytest_cache'), ignore_errors=True)
    result['demo_clean_exit'] = c0
    result['demo_patched_exit'] = c1
    result['tests_passed'] = passed
    result['confirmed'] = (c0 == 0 and c1 != 0 and passed == 141 and ct == 0)
    print('confirm: clean demo exit=%d, patched tests=%d passed (exit %d), patched demo exit=%d -> %s' % (
        c0, passed, ct, c1, 'CONFIRMED' if result['confirmed'] else 'NOT CONFIRMED'))
    if not result['confirmed']:
        print(o0[-600:], '\n---\n', ot[-600:], '\n---\n', o1[-600:])

    # -- 2. run the checks against a scratch copy of /repo with the patch
    props = (args.props or meta.get('property', 'C08')).split(',')
    checks = {}
    tmp = tempfile.mkdtemp(prefix='emmet-seeded-')
    try:
        shutil.copytree('/repo/emmet', os.path.join(tmp, 'emmet'), ignore=shutil.ignore_patterns('__pycache__'))
        sh(['git', 'init', '-q'], cwd=tmp)
        ca, oa = sh(['git', 'apply', '--whitespace=nowarn', patch], cwd=tmp)
        if ca != 0:
            print('patch does not apply to /repo copy:', oa)
            return 2
        env = dict(os.environ)
        env.update({'VERIF_REPO': tmp, 'VERIF_EVIDENCE_DIR': os.path.join(tmp, 'evidence'), 'VERIF_REPLAY_DIR': os.path.join(tmp, 'replays')})
        for prop in props:
            cmd = [PY, os.path.join(VERIF, 'bin', 'check'), prop, '--tier', 'quick']
            if args.runs:
                cmd += ['--runs', str(args.runs)]
            t = time.time()
            code, out = sh(cmd, env=env)
            secs = time.time() - t
            classes = re.findall(r'violation class (\S+): (\d+) runs, first at run (\d+)', out)
            details = re.findall(r'^  detail: (.*)$', out, re.M)
            checks[prop] = {'exit': code, 'classes': [{'class': c, 'runs': int(n), 'first_run': int(f)} for c, n, f in classes],
                            'seconds': round(secs, 1), 'detail': [d[:400] for d in details[:3]]}
            ran.append('%s (VERIF_REPO=<scratch copy of /repo + patch>) -> exit %d' % (' '.join(cmd[1:]).replace(VERIF + '/', ''), code))
            print('check %s: exit=%d classes=%s (%.0fs)' % (prop, code, [(c, f) for c, n, f in classes], secs))
            if code == 2:
                print(out[-2000:])
            # copy the first replay for the record
            rdir = os.path.join(tmp, 'replays')
            if code == 1 and os.path.isdir(rdir) and not args.no_keep:
                dest = os.path.join(VERIF, 'seeded', args.sid)
                os.makedirs(dest, exist_ok=True)
                for fn in sorted(os.listdir(rdir))[:2]:
                    shutil.copy(os.path.join(rdir, fn), os.path.join(dest, 'replay-' + fn))
    finally:
        shutil.rmtree(tmp, ignore_errors=True)
    result['checks'] = checks

    # -- 3. keep
    if result['confirmed'] and not args.no_keep:
        dest = os.path.join(VERIF, 'seeded', args.sid)
        os.makedirs(dest, exist_ok=True)
        if not reeval:
            shutil.copy(patch, os.path.join(dest, 'patch.diff'))
            shutil.copy(demo, os.path.join(dest, 'demo.py'))
        meta_out = {
            'id': args.sid,
            'breaks_property': meta.get('property'),
            'title': meta.get('title'),
            'mechanism': meta.get('mechanism'),
            'needs_to_manifest': meta.get('needs'),
            'files': meta.get('files'),
            'source': 'independent sub-agent given only the property text and a scratch worktree',
            'demo_expects_tree_at': meta.get('_orig_tree', wt),
            'demo_how_to_run': 'tools/run_seeded_demo.py %s <tree>   (rewrites the hard-coded tree path, then runs demo.py)' % args.sid,
            'confirmed': result['confirmed'],
            'what_was_run': ran,
            'checks': checks,
            'detected_by': [p for p, c in checks.items() if c['exit'] == 1],
        }
        with open(os.path.join(dest, 'meta.json'), 'w') as fh:
            json.dump(meta_out, fh, indent=1)
            fh.write('\n')
    if reeval and os.path.exists(demo):
        os.unlink(demo)
    print(json.dumps({'sid': args.sid, 'confirmed': result['confirmed'],
                      'detected': {p: c['exit'] == 1 for p, c in checks.items()}}))
    return 0


if __name__ == '__main__':
    sys.exit(main())
