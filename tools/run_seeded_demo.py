#!/venv/bin/python
"""run_seeded_demo.py <seeded-id> <tree>

Runs seeded/<id>/demo.py against the emmet checkout at <tree> (the demos were written
by sub-agents against their own scratch worktree and carry that path verbatim)."""
import json
import os
import subprocess
import sys
import tempfile

VERIF = os.path.dirname(os.path.dirname(os.path.abspath(__file__)))


def main():
    sid, tree = sys.argv[1], os.path.realpath(sys.argv[2])
    d = os.path.join(VERIF, 'seeded', sid)
    meta = json.load(open(os.path.join(d, 'meta.json')))
    src = open(os.path.join(d, 'demo.py')).read().replace(meta['demo_expects_tree_at'], tree)
    with tempfile.NamedTemporaryFile('w', suffix='.py', delete=False) as fh:
        fh.write(src)
        path = fh.name
    try:
        return subprocess.run(['/venv/bin/python', path], cwd=tree).returncode
    finally:
        os.unlink(path)


if __name__ == '__main__':
    sys.exit(main())
