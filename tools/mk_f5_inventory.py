#!/venv/bin/python
"""Writes sim/f5_inventory.json: the functions of the library (relative file, qualified
name) at whose entries fault F5 may be delivered. Generated once from the repaired pinned
tree and committed: functions that a later refactor adds are never targeted, because a
new helper may well *be* the cleanup code ("the library's own cleanup failed" is not a
failure a correct repair has to survive)."""
import ast
import json
import os
import sys

REPO = os.path.realpath(sys.argv[1] if len(sys.argv) > 1 else '/repo')
OUT = os.path.join(os.path.dirname(os.path.dirname(os.path.abspath(__file__))), 'sim', 'f5_inventory.json')


class V(ast.NodeVisitor):
    def __init__(self):
        self.scope = []      # list of (kind, name)
        self.names = set()

    def qual(self, name):
        parts = []
        for kind, n in self.scope:
            parts.append(n)
            if kind == 'func':
                parts.append('<locals>')
        parts.append(name)
        return '.'.join(parts)

    def visit_FunctionDef(self, node):
        self.names.add(self.qual(node.name))
        for d in node.decorator_list + node.args.defaults + [x for x in node.args.kw_defaults if x is not None]:
            self.visit(d)
        self.scope.append(('func', node.name))
        for st in node.body:
            self.visit(st)
        self.scope.pop()

    visit_AsyncFunctionDef = visit_FunctionDef

    def visit_ClassDef(self, node):
        self.scope.append(('class', node.name))
        for st in node.body:
            self.visit(st)
        self.scope.pop()

    def visit_Lambda(self, node):
        self.names.add(self.qual('<lambda>'))
        self.scope.append(('func', '<lambda>'))
        self.visit(node.body)
        self.scope.pop()


def main():
    root = os.path.join(REPO, 'emmet')
    inv = {}
    for dirpath, dirnames, filenames in os.walk(root):
        dirnames.sort()
        if '__pycache__' in dirpath:
            continue
        for fn in sorted(filenames):
            if fn.endswith('.py'):
                path = os.path.join(dirpath, fn)
                v = V()
                v.visit(ast.parse(open(path, 'rb').read(), path))
                if v.names:
                    inv[os.path.relpath(path, root)] = sorted(v.names)
    with open(OUT, 'w') as fh:
        json.dump(inv, fh, indent=0, sort_keys=True)
        fh.write('\n')
    print('%d files, %d functions -> %s' % (len(inv), sum(len(v) for v in inv.values()), OUT))


if __name__ == '__main__':
    main()
